(* C15 - containment: whatever arrives on the socket, no exception escapes into the event loop and the responder keeps
   every registered service.  Model/Front.v = AsyncListener.datagram_received in front of the node LTS with the encoder
   behind it; an [ORaise e] in the output of a datagram / timer label is an exception that would escape.
   Helper files: C15_enc.v (when packets() raises), C15_dec.v (what the decoder hands out), C15_resp.v (replies consist
   of records of registered services). *)
From Coq Require Import ZArith List Bool Lia ZifyBool.
From ZC Require Import Model.Base Model.PyRec Model.Dict Model.Re Model.Utf8 Model.Names Model.Cache Model.Ingest Model.Respond Model.Route
  Model.WireDec Model.WireEnc Model.OutQueue Model.Register Model.Listener Model.Node Model.Front
  Gen.Const Gen.Extra Gen.DnsPure Gen.Shapes Spec.CacheSpec Spec.AnswerSpec.
From ZC Require Import Proofs.C01_defs Proofs.C02_total Proofs.C03_reg Proofs.C05_cache
  Proofs.C15_enc Proofs.C15_dec Proofs.C15_resp.
Import ListNotations.
Open Scope Z_scope.
Ltac Zify.zify_post_hook ::= Z.to_euclidean_division_equations.

Definition is_byte (b : Z) : Prop := 0 <= b < 256.

(* ================================================================================================ *)
(* 1. oversize datagrams are ignored; 8966 bytes is still processed                                 *)

Theorem oversize_ignored : forall f data addr port now tc rq rd,
  C_MAX_MSG_ABSOLUTE < Z.of_nat (length data) -> fstep f (FDatagram data addr port now tc rq rd) = (f, []).
Proof.
  intros f data addr port now tc rq rd H. cbn [fstep].
  destruct (Z.of_nat (length data) >? C_MAX_MSG_ABSOLUTE) eqn:E; [reflexivity|lia].
Qed.

(* ================================================================================================ *)
(* 2. duplicates are ignored                                                                         *)

Theorem duplicate_ignored : forall f data addr port now tc rq rd,
  is_duplicate (f_ls f) data now = true -> fstep f (FDatagram data addr port now tc rq rd) = (f, []).
Proof.
  intros f data addr port now tc rq rd H. cbn [fstep]. rewrite H.
  destruct (Z.of_nat (length data) >? C_MAX_MSG_ABSOLUTE); reflexivity.
Qed.

(* ================================================================================================ *)
(* 3. the decoder lets nothing out                                                                   *)

Theorem decoder_contained : forall data now, Forall is_byte data -> m_escaped (parse data now None FRAMES) = None.
Proof. intros data now H. apply parse_total_bytes; [exact H|unfold FRAMES; lia]. Qed.

(* ... so the [Some e => (f, [ORaise e])] branch of fstep is dead for real datagrams: a datagram that passes the two
   guards is handed to the listener and only the listener / node / encoder decide what comes out *)
Corollary fstep_datagram_unfold : forall f data addr port now tc rq rd, Forall is_byte data ->
  Z.of_nat (length data) <= C_MAX_MSG_ABSOLUTE -> is_duplicate (f_ls f) data now = false ->
  fstep f (FDatagram data addr port now tc rq rd) =
  let p := parse data now None FRAMES in
  let m := lmsg_of data p in
  let msgs' := d_set bytes_eqb (f_msgs f) (mkey addr data) (qmsg_of p now, m_id p) in
  let '(ls', o) := datagram (f_ls f) m addr now (nonempty (g_services (n_reg (f_node f)))) tc in
  match o with
  | OResponse _ =>
      let '(n', outs) := nstep (f_node f) (LResp now (m_answers p)) in
      ({| f_node := n'; f_ls := ls'; f_msgs := f_msgs f |}, send_gate outs)
  | ORespond a packets => respond f ls' msgs' a port packets now rq rd
  | ODeferred => ({| f_node := f_node f; f_ls := ls'; f_msgs := msgs' |}, [])
  | _ => ({| f_node := f_node f; f_ls := ls'; f_msgs := f_msgs f |}, [])
  end.
Proof.
  intros f data addr port now tc rq rd Hb Hsz Hdup. cbn [fstep].
  destruct (Z.of_nat (length data) >? C_MAX_MSG_ABSOLUTE) eqn:E; [lia|]. rewrite Hdup.
  rewrite (decoder_contained data now Hb). reflexivity.
Qed.

(* ---- the listener on a datagram that passed the guards ---- *)
Definition deferred_of (s : lstate) (a : text) : list lmsg :=
  match d_get text_eqb (ls_deferred s) a with Some l => l | None => [] end.

Lemma datagram_cases s m a now he tc s' o : datagram s m a now he tc = (s', o) ->
  (ls_data s' = ls_data s \/ ls_data s' = Some (lm_data m)) /\
  ((ls_deferred s' = ls_deferred s /\ ls_timers s' = ls_timers s /\ (forall x p, o <> ORespond x p))
   \/ (o = ORespond a (deferred_of s a ++ [m]) /\
       ls_deferred s' = d_del text_eqb (ls_deferred s) a /\ ls_timers s' = d_del text_eqb (ls_timers s) a)
   \/ (o = ODeferred /\ ls_deferred s' = d_set text_eqb (ls_deferred s) a (deferred_of s a ++ [m]) /\
       ls_timers s' = d_set text_eqb (ls_timers s) a (now + tc))).
Proof.
  unfold datagram. cbv zeta.
  destruct (Z.of_nat (length (lm_data m)) >? C_MAX_MSG_ABSOLUTE).
  { intro H; inversion H; subst. split; [left; reflexivity|]. left. repeat split; intros; discriminate. }
  destruct (is_duplicate s (lm_data m) now).
  { intro H; inversion H; subst. split; [left; reflexivity|]. left. repeat split; intros; discriminate. }
  destruct (negb (lm_valid m)).
  { intro H; inversion H; subst. split; [right; reflexivity|]. left. repeat split; intros; discriminate. }
  destruct (negb (lm_is_query m)).
  { intro H; inversion H; subst. split; [right; reflexivity|]. left. repeat split; intros; discriminate. }
  destruct (negb he).
  { intro H; inversion H; subst. split; [right; reflexivity|]. left. repeat split; intros; discriminate. }
  destruct (negb (lm_truncated m)).
  { unfold respond_query. cbn [ls_deferred ls_timers]. intro H; inversion H; subst.
    split; [right; reflexivity|]. right. left. repeat split. }
  cbn [ls_deferred ls_timers].
  destruct (existsb (fun x => bytes_eqb (lm_data x) (lm_data m))
                    match d_get text_eqb (ls_deferred s) a with Some l => l | None => [] end).
  { intro H; inversion H; subst. split; [right; reflexivity|]. left. repeat split; intros; discriminate. }
  intro H; inversion H; subst. split; [right; reflexivity|]. right. right. repeat split.
Qed.

(* the boundary: a datagram of exactly 8966 bytes (or less) that is not a duplicate is processed - the listener
   records it as the last datagram seen *)
Theorem at_limit_processed : forall f data addr port now tc rq rd, Forall is_byte data ->
  Z.of_nat (length data) <= C_MAX_MSG_ABSOLUTE -> is_duplicate (f_ls f) data now = false ->
  ls_data (f_ls (fst (fstep f (FDatagram data addr port now tc rq rd)))) = Some data.
Proof.
  intros f data addr port now tc rq rd Hb Hsz Hdup.
  rewrite fstep_datagram_unfold by assumption. cbv zeta.
  destruct (datagram (f_ls f) (lmsg_of data (parse data now None FRAMES)) addr now
                     (nonempty (g_services (n_reg (f_node f)))) tc) as [ls' o] eqn:E.
  assert (Hd : ls_data ls' = Some data).
  { unfold datagram in E. cbv zeta in E. cbn [lm_data lmsg_of] in E.
    destruct (Z.of_nat (length data) >? C_MAX_MSG_ABSOLUTE) eqn:E1; [lia|]. rewrite Hdup in E.
    repeat match type of E with
    | (if ?c then _ else _) = _ => destruct c
    end; try (inversion E; reflexivity). }
  destruct o; try exact Hd.
  unfold respond. destruct (flat_map _ packets) as [|[q i] rest]; [exact Hd|].
  destruct (nstep (f_node f) _) as [n' outs]. exact Hd.
Qed.

Example boundary_8966 :
  Z.of_nat (length (repeat 0 (Z.to_nat 8966))) = C_MAX_MSG_ABSOLUTE /\
  ls_data (f_ls (fst (fstep fnode_init (FDatagram (repeat 0 (Z.to_nat 8966)) [49] 5353 1000 450 20 20)))) = Some (repeat 0 (Z.to_nat 8966)) /\
  fstep fnode_init (FDatagram (repeat 0 (Z.to_nat 8967)) [49] 5353 1000 450 20 20) = (fnode_init, []).
Proof. vm_compute. repeat split; reflexivity. Qed.

(* ================================================================================================ *)
(* 4. datagrams and timers never touch the registry, the coroutines, the tasks, the goodbye, `done`  *)

Definition same_services (n n' : node) : Prop :=
  n_reg n' = n_reg n /\ n_checks n' = n_checks n /\ n_tasks n' = n_tasks n /\ n_bye n' = n_bye n /\ n_done n' = n_done n.

Lemma same_services_refl n : same_services n n.
Proof. repeat split. Qed.

(* the loop of nstep (LQuery ..) over the actions of handle_assembled_query *)
Definition qfold (now rnd_q rnd_d : Z) (acc : node * list nout) (a : action) : node * list nout :=
  let '(m, outs) := acc in
  match a with
  | AUnicast ad po msg => (m, outs ++ [OSend now (Some (ad, po)) msg])
  | AMulticast msg => (m, outs ++ [OSend now None msg])
  | AQueue t s => let '(tbl, a') := intern_set (n_tbl m) s in
                  (set_queues m tbl (async_add (n_q m) t now rnd_q a') (n_qd m), outs)
  | ADelayQueue t s => let '(tbl, a') := intern_set (n_tbl m) s in
                       (set_queues m tbl (n_q m) (async_add (n_qd m) t now rnd_d a'), outs)
  end.

Lemma nstep_LQuery n now msgs id addr port rq rd :
  nstep n (LQuery now msgs id addr port rq rd) =
  let '(n', outs) := fold_left (qfold now rq rd) (handle_assembled_query (n_reg n) (n_cache n) msgs id addr port) (n, []) in
  (n', gate n outs).
Proof. reflexivity. Qed.

Definition act_out (now : Z) (a : action) : list nout :=
  match a with
  | AUnicast ad po msg => [OSend now (Some (ad, po)) msg]
  | AMulticast msg => [OSend now None msg]
  | _ => []
  end.

Lemma qfold_spec now rq rd acts : forall n outs,
  same_services n (fst (fold_left (qfold now rq rd) acts (n, outs))) /\
  n_cache (fst (fold_left (qfold now rq rd) acts (n, outs))) = n_cache n /\
  snd (fold_left (qfold now rq rd) acts (n, outs)) = outs ++ flat_map (act_out now) acts.
Proof.
  induction acts as [|a acts IH]; intros n outs; cbn [fold_left flat_map].
  - rewrite app_nil_r. split; [apply same_services_refl|split; reflexivity].
  - destruct a as [ad po msg|msg|t s|t s]; cbn [qfold act_out].
    + destruct (IH n (outs ++ [OSend now (Some (ad, po)) msg])) as (A & B & C).
      split; [exact A|]. split; [exact B|]. rewrite C, <- app_assoc. reflexivity.
    + destruct (IH n (outs ++ [OSend now None msg])) as (A & B & C).
      split; [exact A|]. split; [exact B|]. rewrite C, <- app_assoc. reflexivity.
    + destruct (intern_set (n_tbl n) s) as [tbl a'].
      destruct (IH (set_queues n tbl (async_add (n_q n) t now rq a') (n_qd n)) outs) as (A & B & C).
      split; [exact A|]. split; [exact B|exact C].
    + destruct (intern_set (n_tbl n) s) as [tbl a'].
      destruct (IH (set_queues n tbl (n_q n) (async_add (n_qd n) t now rd a')) outs) as (A & B & C).
      split; [exact A|]. split; [exact B|exact C].
Qed.

Lemma nstep_LQuery_frame n now msgs id addr port rq rd :
  same_services n (fst (nstep n (LQuery now msgs id addr port rq rd))) /\
  n_cache (fst (nstep n (LQuery now msgs id addr port rq rd))) = n_cache n /\
  snd (nstep n (LQuery now msgs id addr port rq rd)) =
    gate n (flat_map (act_out now) (handle_assembled_query (n_reg n) (n_cache n) msgs id addr port)).
Proof.
  rewrite nstep_LQuery.
  pose proof (qfold_spec now rq rd (handle_assembled_query (n_reg n) (n_cache n) msgs id addr port) n []) as (A & B & C).
  destruct (fold_left _ _ _) as [n' outs]. cbn [fst snd] in *. subst outs. repeat split; try apply A; exact B.
Qed.

Lemma nstep_LResp_frame n now answers : same_services n (fst (nstep n (LResp now answers))).
Proof. cbn [nstep fst]. unfold set_cache, same_services. cbn. repeat split. Qed.

Lemma respond_frame f ls' msgs' a port packets now rq rd :
  same_services (f_node f) (f_node (fst (respond f ls' msgs' a port packets now rq rd))).
Proof.
  unfold respond. destruct (flat_map _ packets) as [|[q i] rest]; [apply same_services_refl|].
  pose proof (nstep_LQuery_frame (f_node f) now (map fst ((q, i) :: rest)) i a port rq rd) as (A & _).
  destruct (nstep (f_node f) _) as [n' outs]. exact A.
Qed.

Theorem datagrams_touch_only : forall f l,
  (match l with FNode _ => False | _ => True end) ->
  let n := f_node f in let n' := f_node (fst (fstep f l)) in
  n_reg n' = n_reg n /\ n_checks n' = n_checks n /\ n_tasks n' = n_tasks n /\ n_bye n' = n_bye n /\ n_done n' = n_done n.
Proof.
  intros f l Hl. cbv zeta. change (same_services (f_node f) (f_node (fst (fstep f l)))).
  destruct l as [data addr port now tc rq rd|addr port now rq rd|nl]; [| |contradiction]; cbn [fstep].
  - destruct (Z.of_nat (length data) >? C_MAX_MSG_ABSOLUTE); [apply same_services_refl|].
    destruct (is_duplicate (f_ls f) data now); [apply same_services_refl|].
    destruct (m_escaped (parse data now None FRAMES)); [apply same_services_refl|].
    destruct (datagram _ _ _ _ _ _) as [ls' o].
    destruct o; try apply same_services_refl.
    + apply (nstep_LResp_frame (f_node f)).
    + apply respond_frame.
  - destruct (respond_query (f_ls f) None addr) as [ls' o].
    destruct o; try apply same_services_refl. apply respond_frame.
Qed.

(* in particular: whatever arrives, the responder keeps every registered service *)
Corollary services_survive : forall f ls, Forall (fun l => match l with FNode _ => False | _ => True end) ls ->
  n_reg (f_node (fstate f ls)) = n_reg (f_node f).
Proof.
  intros f ls. revert f. induction ls as [|l ls IH]; intros f H; [reflexivity|].
  inversion H as [|l' ls' Hl Hls]; subst l' ls'. cbn [fstate]. rewrite IH by exact Hls.
  apply (datagrams_touch_only f l Hl).
Qed.

(* ================================================================================================ *)
(* 5. the front invariant: packets[0] never fails                                                    *)

(* every packet deferred for an address has its DNSIncoming in f_msgs, no address has an empty list of deferred
   packets, and the reassembly timers are exactly the addresses with deferred packets *)
Definition FInv (f : fnode) : Prop :=
  (forall a l, In (a, l) (ls_deferred (f_ls f)) ->
     l <> [] /\ forall m, In m l -> d_get bytes_eqb (f_msgs f) (mkey a (lm_data m)) <> None) /\
  map fst (ls_timers (f_ls f)) = map fst (ls_deferred (f_ls f)).

(* ---- dictionaries ---- *)
Lemma tget_In {V} (d : list (text * V)) k v : d_get text_eqb d k = Some v -> In (k, v) d.
Proof.
  induction d as [|[k0 v0] d IH]; cbn [d_get]; [discriminate|].
  destruct (text_eqb k0 k) eqn:E; intro H.
  - inversion H; subst. apply text_eqb_eq in E. subst. left. reflexivity.
  - right. apply IH. exact H.
Qed.

Lemma tset_In {V} (d : list (text * V)) k v k0 v0 :
  In (k0, v0) (d_set text_eqb d k v) -> In (k0, v0) d \/ (k0 = k /\ v0 = v).
Proof.
  induction d as [|[k' v'] d IH]; cbn [d_set].
  - intros [H|[]]. inversion H. right. split; reflexivity.
  - destruct (text_eqb k' k) eqn:E.
    + intros [H|H]; [|left; right; exact H]. inversion H; subst. apply text_eqb_eq in E. right. split; [exact E|reflexivity].
    + intros [H|H]; [left; left; exact H|]. destruct (IH H) as [H'|H']; [left; right; exact H'|right; exact H'].
Qed.

Lemma tdel_In {V} (d : list (text * V)) k k0 v0 : In (k0, v0) (d_del text_eqb d k) -> In (k0, v0) d.
Proof.
  induction d as [|[k' v'] d IH]; cbn [d_del]; [intros []|].
  destruct (text_eqb k' k); [intro H; right; exact H|].
  intros [H|H]; [left; exact H|right; apply IH; exact H].
Qed.

Lemma keys_set {V W} (d1 : list (text * V)) : forall (d2 : list (text * W)) k v w,
  map fst d1 = map fst d2 -> map fst (d_set text_eqb d1 k v) = map fst (d_set text_eqb d2 k w).
Proof.
  induction d1 as [|[k1 v1] d1 IH]; intros [|[k2 v2] d2] k v w H; cbn [map fst] in H; try discriminate; [reflexivity|].
  inversion H as [[Hk Ht]]. subst k2. cbn [d_set]. destruct (text_eqb k1 k); cbn [map fst]; [rewrite Ht; reflexivity|].
  rewrite (IH d2 k v w Ht). reflexivity.
Qed.

Lemma keys_del {V W} (d1 : list (text * V)) : forall (d2 : list (text * W)) k,
  map fst d1 = map fst d2 -> map fst (d_del text_eqb d1 k) = map fst (d_del text_eqb d2 k).
Proof.
  induction d1 as [|[k1 v1] d1 IH]; intros [|[k2 v2] d2] k H; cbn [map fst] in H; try discriminate; [reflexivity|].
  inversion H as [[Hk Ht]]. subst k2. cbn [d_del]. destruct (text_eqb k1 k); [exact Ht|].
  cbn [map fst]. rewrite (IH d2 k Ht). reflexivity.
Qed.

Lemma keys_get {V W} (d1 : list (text * V)) : forall (d2 : list (text * W)) k,
  map fst d1 = map fst d2 -> d_get text_eqb d1 k <> None -> d_get text_eqb d2 k <> None.
Proof.
  induction d1 as [|[k1 v1] d1 IH]; intros [|[k2 v2] d2] k H; cbn [map fst] in H; try discriminate;
    [intro G; exact G|].
  inversion H as [[Hk Ht]]. subst k2. cbn [d_get]. destruct (text_eqb k1 k); [intros _; discriminate|]. apply IH. exact Ht.
Qed.

Lemma bytes_eqb_refl_ (a : bytes) : bytes_eqb a a = true.
Proof. apply (text_eqb_refl a). Qed.

Lemma bset_get_same {V} (d : list (bytes * V)) k v : d_get bytes_eqb (d_set bytes_eqb d k v) k = Some v.
Proof.
  induction d as [|[k' v'] d IH]; cbn [d_set d_get]; [rewrite bytes_eqb_refl_; reflexivity|].
  destruct (bytes_eqb k' k) eqn:E; cbn [d_get]; rewrite E; [reflexivity|exact IH].
Qed.

Lemma bset_get_mono {V} (d : list (bytes * V)) k v k0 :
  d_get bytes_eqb d k0 <> None -> d_get bytes_eqb (d_set bytes_eqb d k v) k0 <> None.
Proof.
  induction d as [|[k' v'] d IH]; cbn [d_set d_get]; [intro H; contradiction|].
  destruct (bytes_eqb k' k) eqn:E; cbn [d_get]; destruct (bytes_eqb k' k0); try (intros _; discriminate); auto.
Qed.

Lemma bget_In {V} (d : list (bytes * V)) k v : d_get bytes_eqb d k = Some v -> exists k', In (k', v) d.
Proof.
  induction d as [|[k0 v0] d IH]; cbn [d_get]; [discriminate|].
  destruct (bytes_eqb k0 k); intro H.
  - inversion H; subst. exists k0. left. reflexivity.
  - destruct (IH H) as [k' Hk']. exists k'. right. exact Hk'.
Qed.

Lemma bset_In {V} (d : list (bytes * V)) k v k0 v0 : In (k0, v0) (d_set bytes_eqb d k v) -> In (k0, v0) d \/ v0 = v.
Proof.
  induction d as [|[k' v'] d IH]; cbn [d_set].
  - intros [H|[]]. inversion H. right. reflexivity.
  - destruct (bytes_eqb k' k).
    + intros [H|H]; [inversion H; right; reflexivity|left; right; exact H].
    + intros [H|H]; [left; left; exact H|]. destruct (IH H) as [H'|H']; [left; right; exact H'|right; exact H'].
Qed.

(* ---- FInv on the three components ---- *)
Definition FInvP (d : list (text * list lmsg)) (t : list (text * Z)) (msgs : list (bytes * (qmsg * Z))) : Prop :=
  (forall a l, In (a, l) d -> l <> [] /\ forall m, In m l -> d_get bytes_eqb msgs (mkey a (lm_data m)) <> None) /\
  map fst t = map fst d.

Lemma FInv_P f : FInv f <-> FInvP (ls_deferred (f_ls f)) (ls_timers (f_ls f)) (f_msgs f).
Proof. reflexivity. Qed.

Lemma FInvP_msgs d t msgs msgs' :
  (forall k, d_get bytes_eqb msgs k <> None -> d_get bytes_eqb msgs' k <> None) -> FInvP d t msgs -> FInvP d t msgs'.
Proof.
  intros Hm [H1 H2]. split; [|exact H2]. intros a l Hin. destruct (H1 a l Hin) as [A B].
  split; [exact A|]. intros m Hm'. apply Hm. exact (B m Hm').
Qed.

Lemma FInvP_del d t msgs a : FInvP d t msgs -> FInvP (d_del text_eqb d a) (d_del text_eqb t a) msgs.
Proof.
  intros [H1 H2]. split; [|apply keys_del; exact H2]. intros a' l Hin. apply H1. eapply tdel_In. exact Hin.
Qed.

Lemma FInvP_set d t msgs a m v :
  FInvP d t msgs -> d_get bytes_eqb msgs (mkey a (lm_data m)) <> None ->
  FInvP (d_set text_eqb d a ((match d_get text_eqb d a with Some l => l | None => [] end) ++ [m])) (d_set text_eqb t a v) msgs.
Proof.
  intros [H1 H2] Hm. split; [|apply keys_set; exact H2]. intros a' l Hin.
  apply tset_In in Hin as [Hin|[-> ->]]; [exact (H1 a' l Hin)|].
  split; [intro E; apply app_eq_nil in E as [_ E]; discriminate|].
  intros x Hx. apply in_app_or in Hx as [Hx|[<-|[]]]; [|exact Hm].
  destruct (d_get text_eqb d a) as [l0|] eqn:G; [|destruct Hx].
  apply tget_In in G. exact (proj2 (H1 a l0 G) x Hx).
Qed.

Lemma FInv_init : FInv fnode_init.
Proof. split; [intros a l []|reflexivity]. Qed.

Lemma respond_ls f ls' msgs' a port packets now rq rd :
  f_ls (fst (respond f ls' msgs' a port packets now rq rd)) = ls' /\
  f_msgs (fst (respond f ls' msgs' a port packets now rq rd)) = msgs'.
Proof.
  unfold respond. destruct (flat_map _ packets) as [|[q i] rest]; [split; reflexivity|].
  destruct (nstep (f_node f) _) as [n' outs]. split; reflexivity.
Qed.

Lemma FInv_intro f' d t msgs : ls_deferred (f_ls f') = d -> ls_timers (f_ls f') = t -> f_msgs f' = msgs ->
  FInvP d t msgs -> FInv f'.
Proof. intros <- <- <- H. exact H. Qed.

Theorem FInv_step : forall f l, FInv f -> FInv (fst (fstep f l)).
Proof.
  intros f l HI. destruct l as [data addr port now tc rq rd|addr port now rq rd|nl]; cbn [fstep].
  - destruct (Z.of_nat (length data) >? C_MAX_MSG_ABSOLUTE); [exact HI|].
    destruct (is_duplicate (f_ls f) data now); [exact HI|].
    destruct (m_escaped (parse data now None FRAMES)); [exact HI|].
    set (p := parse data now None FRAMES). set (msgs' := d_set bytes_eqb (f_msgs f) (mkey addr data) (qmsg_of p now, m_id p)).
    assert (Hmono : forall k, d_get bytes_eqb (f_msgs f) k <> None -> d_get bytes_eqb msgs' k <> None)
      by (intro k; apply bset_get_mono).
    assert (Hnew : d_get bytes_eqb msgs' (mkey addr (lm_data (lmsg_of data p))) <> None)
      by (cbn [lm_data lmsg_of]; unfold msgs'; rewrite bset_get_same; discriminate).
    apply FInv_P in HI.
    destruct (datagram (f_ls f) (lmsg_of data p) addr now (nonempty (g_services (n_reg (f_node f)))) tc) as [ls' o] eqn:E.
    apply datagram_cases in E as [_ [(D1 & D2 & D3)|[(-> & D1 & D2)|(-> & D1 & D2)]]].
    + assert (H0 : FInvP (ls_deferred ls') (ls_timers ls') (f_msgs f)) by (rewrite D1, D2; exact HI).
      assert (H1 : FInvP (ls_deferred ls') (ls_timers ls') msgs') by (eapply FInvP_msgs; eassumption).
      destruct o; try exact H0; try exact H1.
      exfalso. eapply D3. reflexivity.
    + destruct (respond_ls f ls' msgs' addr port (deferred_of (f_ls f) addr ++ [lmsg_of data p]) now rq rd) as [R1 R2].
      eapply FInv_intro; [rewrite R1; exact D1|rewrite R1; exact D2|exact R2|].
      apply FInvP_del. eapply FInvP_msgs; eassumption.
    + eapply FInv_intro; [exact D1|exact D2|reflexivity|].
      apply FInvP_set; [eapply FInvP_msgs; eassumption|exact Hnew].
  - unfold respond_query. cbv zeta.
    destruct (respond_ls f (set_deferred (f_ls f) (d_del text_eqb (ls_deferred (f_ls f)) addr) (d_del text_eqb (ls_timers (f_ls f)) addr))
                (f_msgs f) addr port (deferred_of (f_ls f) addr) now rq rd) as [R1 R2].
    unfold deferred_of in R1, R2.
    eapply FInv_intro; [rewrite R1; reflexivity|rewrite R1; reflexivity|exact R2|].
    apply FInvP_del. exact HI.
  - destruct (nstep (f_node f) nl) as [n' outs]. exact HI.
Qed.
