(* C15 - containment: whatever arrives on the socket, no exception escapes into the event loop and the responder keeps
   every registered service.  Model/Front.v = AsyncListener.datagram_received in front of the node LTS with the encoder
   behind it; an [ORaise e] in the output of a datagram / timer label is an exception that would escape.
   Helper files: C15_enc.v (when packets() raises), C15_dec.v (what the decoder hands out), C15_resp.v (replies consist
   of records of registered services). *)
From Coq Require Import ZArith List Bool Lia ZifyBool.
From ZC Require Import Model.Base Model.PyRec Model.Dict Model.Re Model.Utf8 Model.Names Model.Cache Model.Ingest Model.Respond Model.Route
  Model.WireDec Model.WireEnc Model.OutQueue Model.Register Model.Listener Model.Node Model.Front
  Gen.Const Gen.Extra Gen.DnsPure Gen.Shapes Spec.CacheSpec Spec.AnswerSpec.
From ZC Require Import Proofs.C01_defs Proofs.C02_total Proofs.C03_reg Proofs.C05_cache
  Proofs.C15_enc Proofs.C15_dec Proofs.C15_resp Proofs.C15_svc.
Import ListNotations.
Open Scope Z_scope.
Ltac Zify.zify_post_hook ::= Z.to_euclidean_division_equations.

Definition is_byte (b : Z) : Prop := 0 <= b < 256.

(* ================================================================================================ *)
(* 1. oversize datagrams are ignored; 8966 bytes is still processed                                 *)

Theorem oversize_ignored : forall f data addr port now tc rq rd,
  C_MAX_MSG_ABSOLUTE < Z.of_nat (length data) -> fstep f (FDatagram data addr port now tc rq rd) = (f, []).
Proof.
  intros f data addr port now tc rq rd H. cbn [fstep].
  destruct (Z.of_nat (length data) >? C_MAX_MSG_ABSOLUTE) eqn:E; [reflexivity|lia].
Qed.

(* ================================================================================================ *)
(* 2. duplicates are ignored                                                                         *)

Theorem duplicate_ignored : forall f data addr port now tc rq rd,
  is_duplicate (f_ls f) data now = true -> fstep f (FDatagram data addr port now tc rq rd) = (f, []).
Proof.
  intros f data addr port now tc rq rd H. cbn [fstep]. rewrite H.
  destruct (Z.of_nat (length data) >? C_MAX_MSG_ABSOLUTE); reflexivity.
Qed.

(* ================================================================================================ *)
(* 3. the decoder lets nothing out                                                                   *)

Theorem decoder_contained : forall data now, Forall is_byte data -> m_escaped (parse data now None FRAMES) = None.
Proof. intros data now H. apply parse_total_bytes; [exact H|unfold FRAMES; lia]. Qed.

(* ... so the [Some e => (f, [ORaise e])] branch of fstep is dead for real datagrams: a datagram that passes the two
   guards is handed to the listener and only the listener / node / encoder decide what comes out *)
(* the table of decoded packets after a datagram that passed the guards: a copy of a packet that is already waiting in the
   reassembly list of its source is ignored (the packet object that waits keeps its own arrival time) *)
Definition waiting (f : fnode) (addr : text) (data : bytes) : bool :=
  match d_get text_eqb (ls_deferred (f_ls f)) addr with
  | Some l => existsb (fun x => bytes_eqb (lm_data x) data) l | None => false end.

Definition msgs_after (f : fnode) (addr : text) (data : bytes) (now : Z) : list (bytes * (qmsg * Z)) :=
  if waiting f addr data then f_msgs f
  else d_set bytes_eqb (f_msgs f) (mkey addr data)
         (qmsg_of (parse data now None FRAMES) now, m_id (parse data now None FRAMES)).

Lemma fstep_datagram_unfold_gen : forall f data addr port now tc rq rd,
  m_escaped (parse data now None FRAMES) = None ->
  Z.of_nat (length data) <= C_MAX_MSG_ABSOLUTE -> is_duplicate (f_ls f) data now = false ->
  fstep f (FDatagram data addr port now tc rq rd) =
  let p := parse data now None FRAMES in
  let m := lmsg_of data p in
  let msgs' := msgs_after f addr data now in
  let '(ls', o) := datagram (f_ls f) m addr now (nonempty (g_services (n_reg (f_node f)))) tc in
  match o with
  | OResponse _ =>
      let '(n', outs) := nstep (f_node f) (LResp now (m_answers p)) in
      ({| f_node := n'; f_ls := ls'; f_msgs := f_msgs f |}, send_gate outs)
  | ORespond a packets => respond f ls' msgs' a port packets now rq rd
  | ODeferred => ({| f_node := f_node f; f_ls := ls'; f_msgs := msgs' |}, [])
  | _ => ({| f_node := f_node f; f_ls := ls'; f_msgs := f_msgs f |}, [])
  end.
Proof.
  intros f data addr port now tc rq rd Hesc Hsz Hdup. cbn [fstep].
  destruct (Z.of_nat (length data) >? C_MAX_MSG_ABSOLUTE) eqn:E; [lia|]. rewrite Hdup, Hesc. reflexivity.
Qed.

Corollary fstep_datagram_unfold : forall f data addr port now tc rq rd, Forall is_byte data ->
  Z.of_nat (length data) <= C_MAX_MSG_ABSOLUTE -> is_duplicate (f_ls f) data now = false ->
  fstep f (FDatagram data addr port now tc rq rd) =
  let p := parse data now None FRAMES in
  let m := lmsg_of data p in
  let msgs' := msgs_after f addr data now in
  let '(ls', o) := datagram (f_ls f) m addr now (nonempty (g_services (n_reg (f_node f)))) tc in
  match o with
  | OResponse _ =>
      let '(n', outs) := nstep (f_node f) (LResp now (m_answers p)) in
      ({| f_node := n'; f_ls := ls'; f_msgs := f_msgs f |}, send_gate outs)
  | ORespond a packets => respond f ls' msgs' a port packets now rq rd
  | ODeferred => ({| f_node := f_node f; f_ls := ls'; f_msgs := msgs' |}, [])
  | _ => ({| f_node := f_node f; f_ls := ls'; f_msgs := f_msgs f |}, [])
  end.
Proof.
  intros f data addr port now tc rq rd Hb. apply fstep_datagram_unfold_gen. apply decoder_contained. exact Hb.
Qed.

(* ---- the listener on a datagram that passed the guards ---- *)
Definition deferred_of (s : lstate) (a : text) : list lmsg :=
  match d_get text_eqb (ls_deferred s) a with Some l => l | None => [] end.

Lemma datagram_cases s m a now he tc s' o : datagram s m a now he tc = (s', o) ->
  (ls_data s' = ls_data s \/ ls_data s' = Some (lm_data m)) /\
  ((ls_deferred s' = ls_deferred s /\ ls_timers s' = ls_timers s /\ (forall x p, o <> ORespond x p))
   \/ (o = ORespond a (deferred_of s a ++ [m]) /\
       ls_deferred s' = d_del text_eqb (ls_deferred s) a /\ ls_timers s' = d_del text_eqb (ls_timers s) a)
   \/ (o = ODeferred /\ ls_deferred s' = d_set text_eqb (ls_deferred s) a (deferred_of s a ++ [m]) /\
       ls_timers s' = d_set text_eqb (ls_timers s) a (now + tc))).
Proof.
  unfold datagram. cbv zeta.
  destruct (Z.of_nat (length (lm_data m)) >? C_MAX_MSG_ABSOLUTE).
  { intro H; inversion H; subst. split; [left; reflexivity|]. left. repeat split; intros; discriminate. }
  destruct (is_duplicate s (lm_data m) now).
  { intro H; inversion H; subst. split; [left; reflexivity|]. left. repeat split; intros; discriminate. }
  destruct (negb (lm_valid m)).
  { intro H; inversion H; subst. split; [right; reflexivity|]. left. repeat split; intros; discriminate. }
  destruct (negb (lm_is_query m)).
  { intro H; inversion H; subst. split; [right; reflexivity|]. left. repeat split; intros; discriminate. }
  destruct (negb he).
  { intro H; inversion H; subst. split; [right; reflexivity|]. left. repeat split; intros; discriminate. }
  destruct (negb (lm_truncated m)).
  { unfold respond_query. cbn [ls_deferred ls_timers]. intro H; inversion H; subst.
    split; [right; reflexivity|]. right. left. repeat split. }
  cbn [ls_deferred ls_timers].
  destruct (existsb (fun x => bytes_eqb (lm_data x) (lm_data m))
                    match d_get text_eqb (ls_deferred s) a with Some l => l | None => [] end).
  { intro H; inversion H; subst. split; [right; reflexivity|]. left. repeat split; intros; discriminate. }
  intro H; inversion H; subst. split; [right; reflexivity|]. right. right. repeat split.
Qed.

(* the boundary: a datagram of exactly 8966 bytes (or less) that is not a duplicate is processed - the listener
   records it as the last datagram seen *)
Theorem at_limit_processed : forall f data addr port now tc rq rd, Forall is_byte data ->
  Z.of_nat (length data) <= C_MAX_MSG_ABSOLUTE -> is_duplicate (f_ls f) data now = false ->
  ls_data (f_ls (fst (fstep f (FDatagram data addr port now tc rq rd)))) = Some data.
Proof.
  intros f data addr port now tc rq rd Hb Hsz Hdup.
  rewrite fstep_datagram_unfold by assumption. cbv zeta.
  destruct (datagram (f_ls f) (lmsg_of data (parse data now None FRAMES)) addr now
                     (nonempty (g_services (n_reg (f_node f)))) tc) as [ls' o] eqn:E.
  assert (Hd : ls_data ls' = Some data).
  { unfold datagram in E. cbv zeta in E. cbn [lm_data lmsg_of] in E.
    destruct (Z.of_nat (length data) >? C_MAX_MSG_ABSOLUTE) eqn:E1; [lia|]. rewrite Hdup in E.
    repeat match type of E with
    | (if ?c then _ else _) = _ => destruct c
    end; try (inversion E; reflexivity). }
  destruct o; try exact Hd.
  unfold respond. destruct (flat_map _ packets) as [|[q i] rest]; [exact Hd|].
  destruct (nstep (f_node f) _) as [n' outs]. exact Hd.
Qed.

Example boundary_8966 :
  Z.of_nat (length (repeat 0 (Z.to_nat 8966))) = C_MAX_MSG_ABSOLUTE /\
  ls_data (f_ls (fst (fstep fnode_init (FDatagram (repeat 0 (Z.to_nat 8966)) [49] 5353 1000 450 20 20)))) = Some (repeat 0 (Z.to_nat 8966)) /\
  fstep fnode_init (FDatagram (repeat 0 (Z.to_nat 8967)) [49] 5353 1000 450 20 20) = (fnode_init, []).
Proof. vm_compute. repeat split; reflexivity. Qed.

(* ================================================================================================ *)
(* 4. datagrams and timers never touch the registry, the coroutines, the tasks, the goodbye, `done`  *)

Definition same_services (n n' : node) : Prop :=
  n_reg n' = n_reg n /\ n_checks n' = n_checks n /\ n_tasks n' = n_tasks n /\ n_bye n' = n_bye n /\ n_done n' = n_done n.

Lemma same_services_refl n : same_services n n.
Proof. repeat split. Qed.

(* the loop of nstep (LQuery ..) over the actions of handle_assembled_query *)
Definition qfold (now rnd_q rnd_d : Z) (acc : node * list nout) (a : action) : node * list nout :=
  let '(m, outs) := acc in
  match a with
  | AUnicast ad po msg => (m, outs ++ [OSend now (Some (ad, po)) msg])
  | AMulticast msg => (m, outs ++ [OSend now None msg])
  | AQueue t s => let '(tbl, a') := intern_set (n_tbl m) s in
                  (set_queues m tbl (async_add (n_q m) t now rnd_q a') (n_qd m), outs)
  | ADelayQueue t s => let '(tbl, a') := intern_set (n_tbl m) s in
                       (set_queues m tbl (n_q m) (async_add (n_qd m) t now rnd_d a'), outs)
  end.

Lemma nstep_LQuery n now msgs id addr port rq rd :
  nstep n (LQuery now msgs id addr port rq rd) =
  let '(n', outs) := fold_left (qfold now rq rd) (handle_assembled_query (n_reg n) (n_cache n) msgs id addr port) (n, []) in
  (n', gate n outs).
Proof. reflexivity. Qed.

Definition act_out (now : Z) (a : action) : list nout :=
  match a with
  | AUnicast ad po msg => [OSend now (Some (ad, po)) msg]
  | AMulticast msg => [OSend now None msg]
  | _ => []
  end.

Lemma qfold_spec now rq rd acts : forall n outs,
  same_services n (fst (fold_left (qfold now rq rd) acts (n, outs))) /\
  n_cache (fst (fold_left (qfold now rq rd) acts (n, outs))) = n_cache n /\
  snd (fold_left (qfold now rq rd) acts (n, outs)) = outs ++ flat_map (act_out now) acts.
Proof.
  induction acts as [|a acts IH]; intros n outs; cbn [fold_left flat_map].
  - rewrite app_nil_r. split; [apply same_services_refl|split; reflexivity].
  - destruct a as [ad po msg|msg|t s|t s]; cbn [qfold act_out].
    + destruct (IH n (outs ++ [OSend now (Some (ad, po)) msg])) as (A & B & C).
      split; [exact A|]. split; [exact B|]. rewrite C, <- app_assoc. reflexivity.
    + destruct (IH n (outs ++ [OSend now None msg])) as (A & B & C).
      split; [exact A|]. split; [exact B|]. rewrite C, <- app_assoc. reflexivity.
    + destruct (intern_set (n_tbl n) s) as [tbl a'].
      destruct (IH (set_queues n tbl (async_add (n_q n) t now rq a') (n_qd n)) outs) as (A & B & C).
      split; [exact A|]. split; [exact B|exact C].
    + destruct (intern_set (n_tbl n) s) as [tbl a'].
      destruct (IH (set_queues n tbl (n_q n) (async_add (n_qd n) t now rd a')) outs) as (A & B & C).
      split; [exact A|]. split; [exact B|exact C].
Qed.

Lemma nstep_LQuery_frame n now msgs id addr port rq rd :
  same_services n (fst (nstep n (LQuery now msgs id addr port rq rd))) /\
  n_cache (fst (nstep n (LQuery now msgs id addr port rq rd))) = n_cache n /\
  snd (nstep n (LQuery now msgs id addr port rq rd)) =
    gate n (flat_map (act_out now) (handle_assembled_query (n_reg n) (n_cache n) msgs id addr port)).
Proof.
  rewrite nstep_LQuery.
  pose proof (qfold_spec now rq rd (handle_assembled_query (n_reg n) (n_cache n) msgs id addr port) n []) as (A & B & C).
  destruct (fold_left _ _ _) as [n' outs]. cbn [fst snd] in *. subst outs. repeat split; try apply A; exact B.
Qed.

Lemma nstep_LResp_frame n now answers : same_services n (fst (nstep n (LResp now answers))).
Proof. cbn [nstep fst]. unfold set_cache, same_services. cbn. repeat split. Qed.

Lemma respond_frame f ls' msgs' a port packets now rq rd :
  same_services (f_node f) (f_node (fst (respond f ls' msgs' a port packets now rq rd))).
Proof.
  unfold respond. destruct (flat_map _ packets) as [|[q i] rest]; [apply same_services_refl|].
  pose proof (nstep_LQuery_frame (f_node f) now (map fst ((q, i) :: rest)) i a port rq rd) as (A & _).
  destruct (nstep (f_node f) _) as [n' outs]. exact A.
Qed.

Theorem datagrams_touch_only : forall f l,
  (match l with FNode _ => False | _ => True end) ->
  let n := f_node f in let n' := f_node (fst (fstep f l)) in
  n_reg n' = n_reg n /\ n_checks n' = n_checks n /\ n_tasks n' = n_tasks n /\ n_bye n' = n_bye n /\ n_done n' = n_done n.
Proof.
  intros f l Hl. cbv zeta. change (same_services (f_node f) (f_node (fst (fstep f l)))).
  destruct l as [data addr port now tc rq rd|addr port now rq rd|nl]; [| |contradiction]; cbn [fstep].
  - destruct (Z.of_nat (length data) >? C_MAX_MSG_ABSOLUTE); [apply same_services_refl|].
    destruct (is_duplicate (f_ls f) data now); [apply same_services_refl|].
    destruct (m_escaped (parse data now None FRAMES)); [apply same_services_refl|].
    destruct (datagram _ _ _ _ _ _) as [ls' o].
    destruct o; try apply same_services_refl.
    + apply (nstep_LResp_frame (f_node f)).
    + apply respond_frame.
  - destruct (respond_query (f_ls f) None addr) as [ls' o].
    destruct o; try apply same_services_refl. apply respond_frame.
Qed.

(* in particular: whatever arrives, the responder keeps every registered service *)
Corollary services_survive : forall f ls, Forall (fun l => match l with FNode _ => False | _ => True end) ls ->
  n_reg (f_node (fstate f ls)) = n_reg (f_node f).
Proof.
  intros f ls. revert f. induction ls as [|l ls IH]; intros f H; [reflexivity|].
  inversion H as [|l' ls' Hl Hls]; subst l' ls'. cbn [fstate]. rewrite IH by exact Hls.
  apply (datagrams_touch_only f l Hl).
Qed.

(* ================================================================================================ *)
(* 5. the front invariant: packets[0] never fails                                                    *)

(* every packet deferred for an address has its DNSIncoming in f_msgs, no address has an empty list of deferred
   packets, and the reassembly timers are exactly the addresses with deferred packets *)
Definition FInv (f : fnode) : Prop :=
  (forall a l, In (a, l) (ls_deferred (f_ls f)) ->
     l <> [] /\ forall m, In m l -> d_get bytes_eqb (f_msgs f) (mkey a (lm_data m)) <> None) /\
  map fst (ls_timers (f_ls f)) = map fst (ls_deferred (f_ls f)).

(* ---- dictionaries ---- *)
Lemma tget_In {V} (d : list (text * V)) k v : d_get text_eqb d k = Some v -> In (k, v) d.
Proof.
  induction d as [|[k0 v0] d IH]; cbn [d_get]; [discriminate|].
  destruct (text_eqb k0 k) eqn:E; intro H.
  - inversion H; subst. apply text_eqb_eq in E. subst. left. reflexivity.
  - right. apply IH. exact H.
Qed.

Lemma tset_In {V} (d : list (text * V)) k v k0 v0 :
  In (k0, v0) (d_set text_eqb d k v) -> In (k0, v0) d \/ (k0 = k /\ v0 = v).
Proof.
  induction d as [|[k' v'] d IH]; cbn [d_set].
  - intros [H|[]]. inversion H. right. split; reflexivity.
  - destruct (text_eqb k' k) eqn:E.
    + intros [H|H]; [|left; right; exact H]. inversion H; subst. apply text_eqb_eq in E. right. split; [exact E|reflexivity].
    + intros [H|H]; [left; left; exact H|]. destruct (IH H) as [H'|H']; [left; right; exact H'|right; exact H'].
Qed.

Lemma tdel_In {V} (d : list (text * V)) k k0 v0 : In (k0, v0) (d_del text_eqb d k) -> In (k0, v0) d.
Proof.
  induction d as [|[k' v'] d IH]; cbn [d_del]; [intros []|].
  destruct (text_eqb k' k); [intro H; right; exact H|].
  intros [H|H]; [left; exact H|right; apply IH; exact H].
Qed.

Lemma keys_set {V W} (d1 : list (text * V)) : forall (d2 : list (text * W)) k v w,
  map fst d1 = map fst d2 -> map fst (d_set text_eqb d1 k v) = map fst (d_set text_eqb d2 k w).
Proof.
  induction d1 as [|[k1 v1] d1 IH]; intros [|[k2 v2] d2] k v w H; cbn [map fst] in H; try discriminate; [reflexivity|].
  inversion H as [[Hk Ht]]. subst k2. cbn [d_set]. destruct (text_eqb k1 k); cbn [map fst]; [rewrite Ht; reflexivity|].
  rewrite (IH d2 k v w Ht). reflexivity.
Qed.

Lemma keys_del {V W} (d1 : list (text * V)) : forall (d2 : list (text * W)) k,
  map fst d1 = map fst d2 -> map fst (d_del text_eqb d1 k) = map fst (d_del text_eqb d2 k).
Proof.
  induction d1 as [|[k1 v1] d1 IH]; intros [|[k2 v2] d2] k H; cbn [map fst] in H; try discriminate; [reflexivity|].
  inversion H as [[Hk Ht]]. subst k2. cbn [d_del]. destruct (text_eqb k1 k); [exact Ht|].
  cbn [map fst]. rewrite (IH d2 k Ht). reflexivity.
Qed.

Lemma keys_get {V W} (d1 : list (text * V)) : forall (d2 : list (text * W)) k,
  map fst d1 = map fst d2 -> d_get text_eqb d1 k <> None -> d_get text_eqb d2 k <> None.
Proof.
  induction d1 as [|[k1 v1] d1 IH]; intros [|[k2 v2] d2] k H; cbn [map fst] in H; try discriminate;
    [intro G; exfalso; apply G; reflexivity|].
  inversion H as [[Hk Ht]]. subst k2. cbn [d_get]. destruct (text_eqb k1 k); [intros _; discriminate|]. apply IH. exact Ht.
Qed.

Lemma bytes_eqb_refl_ (a : bytes) : bytes_eqb a a = true.
Proof. apply (text_eqb_refl a). Qed.

Lemma bset_get_same {V} (d : list (bytes * V)) k v : d_get bytes_eqb (d_set bytes_eqb d k v) k = Some v.
Proof.
  induction d as [|[k' v'] d IH]; cbn [d_set d_get]; [rewrite bytes_eqb_refl_; reflexivity|].
  destruct (bytes_eqb k' k) eqn:E; cbn [d_get]; rewrite E; [reflexivity|exact IH].
Qed.

Lemma bset_get_mono {V} (d : list (bytes * V)) k v k0 :
  d_get bytes_eqb d k0 <> None -> d_get bytes_eqb (d_set bytes_eqb d k v) k0 <> None.
Proof.
  induction d as [|[k' v'] d IH]; cbn [d_set d_get]; [intro H; contradiction|].
  destruct (bytes_eqb k' k) eqn:E; cbn [d_get]; destruct (bytes_eqb k' k0); try (intros _; discriminate); auto.
Qed.

Lemma bget_In {V} (d : list (bytes * V)) k v : d_get bytes_eqb d k = Some v -> exists k', In (k', v) d.
Proof.
  induction d as [|[k0 v0] d IH]; cbn [d_get]; [discriminate|].
  destruct (bytes_eqb k0 k); intro H.
  - inversion H; subst. exists k0. left. reflexivity.
  - destruct (IH H) as [k' Hk']. exists k'. right. exact Hk'.
Qed.

Lemma bset_In {V} (d : list (bytes * V)) k v k0 v0 : In (k0, v0) (d_set bytes_eqb d k v) -> In (k0, v0) d \/ v0 = v.
Proof.
  induction d as [|[k' v'] d IH]; cbn [d_set].
  - intros [H|[]]. inversion H. right. reflexivity.
  - destruct (bytes_eqb k' k).
    + intros [H|H]; [inversion H; right; reflexivity|left; right; exact H].
    + intros [H|H]; [left; left; exact H|]. destruct (IH H) as [H'|H']; [left; right; exact H'|right; exact H'].
Qed.

(* ---- FInv on the three components ---- *)
Definition FInvP (d : list (text * list lmsg)) (t : list (text * Z)) (msgs : list (bytes * (qmsg * Z))) : Prop :=
  (forall a l, In (a, l) d -> l <> [] /\ forall m, In m l -> d_get bytes_eqb msgs (mkey a (lm_data m)) <> None) /\
  map fst t = map fst d.

Lemma FInv_P f : FInv f <-> FInvP (ls_deferred (f_ls f)) (ls_timers (f_ls f)) (f_msgs f).
Proof. reflexivity. Qed.

Lemma FInvP_msgs d t msgs msgs' :
  (forall k, d_get bytes_eqb msgs k <> None -> d_get bytes_eqb msgs' k <> None) -> FInvP d t msgs -> FInvP d t msgs'.
Proof.
  intros Hm [H1 H2]. split; [|exact H2]. intros a l Hin. destruct (H1 a l Hin) as [A B].
  split; [exact A|]. intros m Hm'. apply Hm. exact (B m Hm').
Qed.

Lemma FInvP_del d t msgs a : FInvP d t msgs -> FInvP (d_del text_eqb d a) (d_del text_eqb t a) msgs.
Proof.
  intros [H1 H2]. split; [|apply keys_del; exact H2]. intros a' l Hin. apply H1. eapply tdel_In. exact Hin.
Qed.

Lemma FInvP_set d t msgs a m v :
  FInvP d t msgs -> d_get bytes_eqb msgs (mkey a (lm_data m)) <> None ->
  FInvP (d_set text_eqb d a ((match d_get text_eqb d a with Some l => l | None => [] end) ++ [m])) (d_set text_eqb t a v) msgs.
Proof.
  intros [H1 H2] Hm. split; [|apply keys_set; exact H2]. intros a' l Hin.
  apply tset_In in Hin as [Hin|[-> ->]]; [exact (H1 a' l Hin)|].
  split; [intro E; apply app_eq_nil in E as [_ E]; discriminate|].
  intros x Hx. apply in_app_or in Hx as [Hx|[<-|[]]]; [|exact Hm].
  destruct (d_get text_eqb d a) as [l0|] eqn:G; [|destruct Hx].
  apply tget_In in G. exact (proj2 (H1 a l0 G) x Hx).
Qed.

Lemma FInv_init : FInv fnode_init.
Proof. split; [intros a l []|reflexivity]. Qed.

Lemma respond_ls f ls' msgs' a port packets now rq rd :
  f_ls (fst (respond f ls' msgs' a port packets now rq rd)) = ls' /\
  f_msgs (fst (respond f ls' msgs' a port packets now rq rd)) = msgs'.
Proof.
  unfold respond. destruct (flat_map _ packets) as [|[q i] rest]; [split; reflexivity|].
  destruct (nstep (f_node f) _) as [n' outs]. split; reflexivity.
Qed.

Lemma FInv_intro f' d t msgs : ls_deferred (f_ls f') = d -> ls_timers (f_ls f') = t -> f_msgs f' = msgs ->
  FInvP d t msgs -> FInv f'.
Proof. intros <- <- <- H. exact H. Qed.

(* ---- the table after a datagram: the key of the datagram is in it - just inserted, or (a copy of a waiting packet) already
        there by the invariant ---- *)
Lemma msgs_after_cases f addr data now :
  msgs_after f addr data now = f_msgs f \/
  msgs_after f addr data now = d_set bytes_eqb (f_msgs f) (mkey addr data)
                                 (qmsg_of (parse data now None FRAMES) now, m_id (parse data now None FRAMES)).
Proof. unfold msgs_after. destruct (waiting f addr data); [left|right]; reflexivity. Qed.

Lemma msgs_after_mono f addr data now k :
  d_get bytes_eqb (f_msgs f) k <> None -> d_get bytes_eqb (msgs_after f addr data now) k <> None.
Proof. intro H. destruct (msgs_after_cases f addr data now) as [-> | ->]; [exact H|apply bset_get_mono; exact H]. Qed.

Lemma msgs_after_In f addr data now k x : In (k, x) (msgs_after f addr data now) ->
  In (k, x) (f_msgs f) \/ x = (qmsg_of (parse data now None FRAMES) now, m_id (parse data now None FRAMES)).
Proof. destruct (msgs_after_cases f addr data now) as [-> | ->]; [intro H; left; exact H|apply bset_In]. Qed.

Lemma waiting_key f addr data : FInv f -> waiting f addr data = true ->
  d_get bytes_eqb (f_msgs f) (mkey addr data) <> None.
Proof.
  intros [HI1 _] W. unfold waiting in W.
  destruct (d_get text_eqb (ls_deferred (f_ls f)) addr) as [l0|] eqn:G; [|discriminate W].
  apply existsb_exists in W as (x & Hx & Hb). apply text_eqb_eq in Hb. subst data.
  apply tget_In in G. exact (proj2 (HI1 addr l0 G) x Hx).
Qed.

Lemma msgs_after_new f addr data now : FInv f -> d_get bytes_eqb (msgs_after f addr data now) (mkey addr data) <> None.
Proof.
  intro HI. unfold msgs_after. destruct (waiting f addr data) eqn:W; [apply waiting_key; assumption|].
  rewrite bset_get_same. discriminate.
Qed.

Theorem FInv_step : forall f l, FInv f -> FInv (fst (fstep f l)).
Proof.
  intros f l HI. destruct l as [data addr port now tc rq rd|addr port now rq rd|nl]; cbn [fstep].
  - destruct (Z.of_nat (length data) >? C_MAX_MSG_ABSOLUTE); [exact HI|].
    destruct (is_duplicate (f_ls f) data now); [exact HI|].
    destruct (m_escaped (parse data now None FRAMES)); [exact HI|].
    fold (waiting f addr data). fold (msgs_after f addr data now).
    set (p := parse data now None FRAMES). set (msgs' := msgs_after f addr data now).
    assert (Hmono : forall k, d_get bytes_eqb (f_msgs f) k <> None -> d_get bytes_eqb msgs' k <> None)
      by (intro k; apply msgs_after_mono).
    assert (Hnew : d_get bytes_eqb msgs' (mkey addr (lm_data (lmsg_of data p))) <> None)
      by (cbn [lm_data lmsg_of]; apply msgs_after_new; exact HI).
    apply FInv_P in HI.
    destruct (datagram (f_ls f) (lmsg_of data p) addr now (nonempty (g_services (n_reg (f_node f)))) tc) as [ls' o] eqn:E.
    apply datagram_cases in E as [_ [(D1 & D2 & D3)|[(-> & D1 & D2)|(-> & D1 & D2)]]].
    + assert (H0 : FInvP (ls_deferred ls') (ls_timers ls') (f_msgs f)) by (rewrite D1, D2; exact HI).
      assert (H1 : FInvP (ls_deferred ls') (ls_timers ls') msgs') by (eapply FInvP_msgs; eassumption).
      destruct o; try exact H0; try exact H1.
      exfalso. eapply D3. reflexivity.
    + destruct (respond_ls f ls' msgs' addr port (deferred_of (f_ls f) addr ++ [lmsg_of data p]) now rq rd) as [R1 R2].
      eapply FInv_intro; [rewrite R1; exact D1|rewrite R1; exact D2|exact R2|].
      apply FInvP_del. eapply FInvP_msgs; eassumption.
    + eapply FInv_intro; [exact D1|exact D2|reflexivity|].
      apply FInvP_set; [eapply FInvP_msgs; eassumption|exact Hnew].
  - unfold respond_query. cbv zeta.
    destruct (respond_ls f (set_deferred (f_ls f) (d_del text_eqb (ls_deferred (f_ls f)) addr) (d_del text_eqb (ls_timers (f_ls f)) addr))
                (f_msgs f) addr port (deferred_of (f_ls f) addr) now rq rd) as [R1 R2].
    unfold deferred_of in R1, R2.
    eapply FInv_intro; [rewrite R1; reflexivity|rewrite R1; reflexivity|exact R2|].
    apply FInvP_del. exact HI.
  - destruct (nstep (f_node f) nl) as [n' outs]. exact HI.
Qed.

(* ---- handle_assembled_query's packets[0] ---- *)
Definition found_of (msgs : list (bytes * (qmsg * Z))) (addr : text) (packets : list lmsg) : list (qmsg * Z) :=
  flat_map (fun m => match d_get bytes_eqb msgs (mkey addr (lm_data m)) with Some x => [x] | None => [] end) packets.

Lemma found_nonempty msgs addr packets :
  packets <> [] -> (forall m, In m packets -> d_get bytes_eqb msgs (mkey addr (lm_data m)) <> None) ->
  found_of msgs addr packets <> [].
Proof.
  destruct packets as [|m rest]; [intro H; contradiction|]. intros _ H. unfold found_of. cbn [flat_map].
  destruct (d_get bytes_eqb msgs (mkey addr (lm_data m))) as [x|] eqn:G; [discriminate|].
  exfalso. apply (H m (or_introl eq_refl)). exact G.
Qed.

Lemma found_values msgs addr packets x : In x (found_of msgs addr packets) -> exists k, In (k, x) msgs.
Proof.
  unfold found_of. intro H. apply in_flat_map in H as (m & _ & Hx).
  destruct (d_get bytes_eqb msgs (mkey addr (lm_data m))) as [y|] eqn:G; [|destruct Hx].
  destruct Hx as [<-|[]]. eapply bget_In. exact G.
Qed.

Lemma respond_found f ls' msgs' addr port packets now rq rd qm id rest :
  found_of msgs' addr packets = (qm, id) :: rest ->
  respond f ls' msgs' addr port packets now rq rd =
  let '(n', outs) := nstep (f_node f) (LQuery now (qm :: map fst rest) id addr port rq rd) in
  ({| f_node := n'; f_ls := ls'; f_msgs := msgs' |}, send_gate outs).
Proof. intro E. unfold respond. fold (found_of msgs' addr packets). rewrite E. reflexivity. Qed.

(* a timer label is legitimate when the timer is pending (it is cancelled when the packets are popped) *)
Definition timer_pending (f : fnode) (addr : text) : Prop := d_get text_eqb (ls_timers (f_ls f)) addr <> None.

Definition wire_label (f : fnode) (l : flabel) : Prop :=
  match l with
  | FDatagram data _ _ _ _ _ _ => Forall is_byte data
  | FTimer addr _ _ _ _ => timer_pending f addr
  | FNode _ => False
  end.

(* the same without the hypothesis on the bytes *)
Definition timer_ok (f : fnode) (l : flabel) : Prop :=
  match l with
  | FDatagram _ _ _ _ _ _ _ => True
  | FTimer addr _ _ _ _ => timer_pending f addr
  | FNode _ => False
  end.

Lemma wire_timer_ok f l : wire_label f l -> timer_ok f l.
Proof. destruct l; intro H; [exact I|exact H|exact H]. Qed.

(* what a datagram / timer label can let out: nothing (the record manager is silent), an exception escaping from the
   decoder (never for real datagrams: decoder_contained), or what the encoder gate makes of the sends of ONE
   query-handler label on a NON-EMPTY list of decoded packets that all satisfy [Q].
   The IndexError of `packets[0]` is not among the possibilities. *)
Inductive front_out (Q : qmsg * Z -> Prop) (f : fnode) (l : flabel) : Prop :=
| FO_silent : snd (fstep f l) = [] -> front_out Q f l
| FO_decoder data addr port now tc rq rd e :
    l = FDatagram data addr port now tc rq rd -> m_escaped (parse data now None FRAMES) = Some e ->
    snd (fstep f l) = [ORaise e] -> front_out Q f l
| FO_query now qm id rest addr port rq rd :
    Forall Q ((qm, id) :: rest) ->
    snd (fstep f l) = send_gate (snd (nstep (f_node f) (LQuery now (qm :: map fst rest) id addr port rq rd))) ->
    front_out Q f l.

Lemma respond_out (Q : qmsg * Z -> Prop) f l ls' msgs' addr port packets now rq rd :
  snd (fstep f l) = snd (respond f ls' msgs' addr port packets now rq rd) ->
  packets <> [] -> (forall m, In m packets -> d_get bytes_eqb msgs' (mkey addr (lm_data m)) <> None) ->
  (forall k x, In (k, x) msgs' -> Q x) -> front_out Q f l.
Proof.
  intros E Hne Hin HQ.
  pose proof (found_nonempty msgs' addr packets Hne Hin) as Hf.
  destruct (found_of msgs' addr packets) as [|[qm id] rest] eqn:Ef; [contradiction|].
  rewrite (respond_found f ls' msgs' addr port packets now rq rd qm id rest Ef) in E.
  apply (FO_query Q f l now qm id rest addr port rq rd).
  - apply Forall_forall. intros x Hx. rewrite <- Ef in Hx. apply found_values in Hx as [k Hk]. exact (HQ k x Hk).
  - rewrite E. destruct (nstep (f_node f) _) as [n' outs]. reflexivity.
Qed.

Lemma fstep_wire_cases (Q : qmsg * Z -> Prop) f l : FInv f -> timer_ok f l ->
  (forall k x, In (k, x) (f_msgs f) -> Q x) ->
  (forall data addr port now tc rq rd, l = FDatagram data addr port now tc rq rd ->
     Q (qmsg_of (parse data now None FRAMES) now, m_id (parse data now None FRAMES))) ->
  front_out Q f l.
Proof.
  intros HI Hl HQ Hnew. pose proof HI as [HI1 HI2].
  destruct l as [data addr port now tc rq rd|addr port now rq rd|nl]; [| |destruct Hl]; cbn [timer_ok] in Hl.
  - specialize (Hnew data addr port now tc rq rd eq_refl).
    destruct (Z.of_nat (length data) >? C_MAX_MSG_ABSOLUTE) eqn:Esz.
    { apply FO_silent. cbn [fstep]. rewrite Esz. reflexivity. }
    destruct (is_duplicate (f_ls f) data now) eqn:Edup.
    { apply FO_silent. cbn [fstep]. rewrite Esz, Edup. reflexivity. }
    destruct (m_escaped (parse data now None FRAMES)) as [e|] eqn:Eesc.
    { apply (FO_decoder Q f _ data addr port now tc rq rd e eq_refl Eesc). cbn [fstep]. rewrite Esz, Edup, Eesc. reflexivity. }
    pose proof (fstep_datagram_unfold_gen f data addr port now tc rq rd Eesc ltac:(lia) Edup) as EU. cbv zeta in EU.
    set (p := parse data now None FRAMES) in *.
    set (msgs' := msgs_after f addr data now) in *.
    destruct (datagram (f_ls f) (lmsg_of data p) addr now (nonempty (g_services (n_reg (f_node f)))) tc) as [ls' o] eqn:E.
    apply datagram_cases in E as [_ [(D1 & D2 & D3)|[(-> & D1 & D2)|(-> & D1 & D2)]]].
    + destruct o; try (apply FO_silent; rewrite EU; reflexivity).
      exfalso. eapply D3. reflexivity.
    + apply (respond_out Q f _ ls' msgs' addr port (deferred_of (f_ls f) addr ++ [lmsg_of data p]) now rq rd).
      * rewrite EU. reflexivity.
      * intro E0. apply app_eq_nil in E0 as [_ E0]. discriminate.
      * intros m Hm. apply in_app_or in Hm as [Hm|[<-|[]]].
        -- unfold deferred_of in Hm. destruct (d_get text_eqb (ls_deferred (f_ls f)) addr) as [l0|] eqn:G; [|destruct Hm].
           apply tget_In in G. unfold msgs'. apply msgs_after_mono. exact (proj2 (HI1 addr l0 G) m Hm).
        -- cbn [lm_data lmsg_of]. unfold msgs'. apply msgs_after_new. exact HI.
      * intros k x Hin. unfold msgs' in Hin. apply msgs_after_In in Hin as [Hin| ->]; [exact (HQ k x Hin)|exact Hnew].
    + apply FO_silent. rewrite EU. reflexivity.
  - unfold timer_pending in Hl.
    pose proof (keys_get _ _ addr HI2 Hl) as Hd.
    destruct (d_get text_eqb (ls_deferred (f_ls f)) addr) as [l0|] eqn:G; [|contradiction].
    pose proof (tget_In _ _ _ G) as Hin0. destruct (HI1 addr l0 Hin0) as [Hne Hall].
    apply (respond_out Q f _ (set_deferred (f_ls f) (d_del text_eqb (ls_deferred (f_ls f)) addr) (d_del text_eqb (ls_timers (f_ls f)) addr))
             (f_msgs f) addr port l0 now rq rd).
    + cbn [fstep]. unfold respond_query. rewrite G. reflexivity.
    + exact Hne.
    + exact Hall.
    + exact HQ.
Qed.

(* every output of a query step is a send *)
Lemma lquery_outs n now msgs id addr port rq rd o :
  In o (snd (nstep n (LQuery now msgs id addr port rq rd))) ->
  exists a, In a (handle_assembled_query (n_reg n) (n_cache n) msgs id addr port) /\
    match a with
    | AUnicast ad po m => o = OSend now (Some (ad, po)) m
    | AMulticast m => o = OSend now None m
    | _ => False
    end.
Proof.
  destruct (nstep_LQuery_frame n now msgs id addr port rq rd) as (_ & _ & E). rewrite E. clear E.
  intro H. assert (H' : In o (flat_map (act_out now) (handle_assembled_query (n_reg n) (n_cache n) msgs id addr port))).
  { unfold gate in H. destruct (n_done n); [apply filter_In in H; apply H|exact H]. }
  apply in_flat_map in H' as (a & Ha & Ho). exists a. split; [exact Ha|].
  destruct a; cbn [act_out] in Ho; try (destruct Ho as [<-|[]]; reflexivity); destruct Ho.
Qed.

Lemma send_gate_raise outs e : In (ORaise e) (send_gate outs) ->
  In (ORaise e) outs \/
  exists t dest m, In (OSend t dest m) outs /\ packets m = Raise e /\ (e = NamePartTooLong -> dest = None).
Proof.
  unfold send_gate. intro H. apply in_flat_map in H as (o & Ho & He).
  destruct o as [t dest m|ms|e'|  |names|names rs| ]; try (destruct He as [He|[]]; try discriminate He).
  - right. exists t, dest, m. split; [exact Ho|].
    destruct (packets m) as [ps|e0] eqn:Ep; [destruct He as [He|[]]; discriminate He|].
    destruct e0; try (destruct He as [He|[]]; inversion He; subst; split; [reflexivity|intro Hc; discriminate Hc]).
    destruct dest as [d|]; [destruct He|]. destruct He as [He|[]]. inversion He; subst. split; reflexivity.
  - left. inversion He; subst. exact Ho.
Qed.

(* 5 (statement): under the front invariant, an IndexError coming out of a datagram or a (pending) timer label can only
   have been raised by the encoder - `packets[0]` on an empty list never happens.  For a timer label whose address has
   no deferred packets the model does emit it (timer_not_pending_raises below): that is the side condition. *)
Theorem no_index_error : forall f l, FInv f -> timer_ok f l ->
  In (ORaise IndexError) (snd (fstep f l)) -> exists m, packets m = Raise IndexError.
Proof.
  intros f l HI Hl Hin.
  destruct (fstep_wire_cases (fun _ => True) f l HI Hl) as [E|data addr port now tc rq rd e _ Eesc E|now qm id rest addr port rq rd _ E];
    try (intros; exact I).
  - rewrite E in Hin. destruct Hin.
  - rewrite E in Hin. destruct Hin as [Hin|[]]. inversion Hin; subst e.
    apply escaped_not_caught in Eesc. discriminate Eesc.
  - rewrite E in Hin. apply send_gate_raise in Hin as [Hin|(t & dest & m & _ & Hp & _)]; [|exists m; exact Hp].
    apply lquery_outs in Hin as (a & _ & Ha). destruct a; try discriminate Ha; destruct Ha.
Qed.

Example timer_not_pending_raises : snd (fstep fnode_init (FTimer [49] 5353 1000 20 20)) = [ORaise IndexError].
Proof. reflexivity. Qed.

(* ================================================================================================ *)
(* 6. the encoder behind the node                                                                    *)

(* RegEncodable g (Proofs/C15_svc.v): every record the responder can emit for a registered service (svc_records: the
   service-type enumeration pointer, dns_pointer, dns_service, dns_text, the addresses, the NSEC record) is rec_encodable;
   svc_fields_encodable gives the field-level sufficient condition (three encodable names, 16-bit port / weight /
   priority, 32-bit TTLs, TXT and addresses of at most 65535 bytes). *)

Lemma flags_resp_u16 : u16 FLAGS_QR_RESPONSE_AA.
Proof. unfold u16, FLAGS_QR_RESPONSE_AA, C_FLAGS_QR_RESPONSE, C_FLAGS_AA. change (Z.lor 32768 1024) with 33792. lia. Qed.

Lemma good_answers_enc l : Forall (fun rn : pyrec * Z => rec_encodable (fst rn) /\ snd rn = 0) l -> Forall ans_encodable l.
Proof.
  intro H. eapply Forall_impl; [|exact H]. intros [r n] [Hr Hn]. cbn [fst snd] in *. subst n. apply rec_encodable_ans. exact Hr.
Qed.

(* what the query handler is given: a 16-bit id and questions as they come off the wire *)
Definition QueryOk (msgs : list qmsg) (id : Z) : Prop :=
  u16 id /\ forall m, In m msgs -> Forall q_soft (qm_questions m).

(* multicast replies are built from registry records only; a unicast reply may in addition echo the questions *)
Theorem query_actions_encodable : forall g c msgs id addr port a,
  RegInv g -> RegEncodable g -> QueryOk msgs id ->
  In a (handle_assembled_query g c msgs id addr port) ->
  match a with AUnicast _ _ m => msg_soft m | AMulticast m => msg_encodable m | _ => True end.
Proof.
  intros g c msgs id addr port a HI HE [Hid Hqs]. unfold handle_assembled_query. cbv zeta.
  destruct (async_response g c msgs (negb (port =? C_MDNS_PORT))) as [qa|] eqn:E; [|intros []].
  destruct msgs as [|m0 ms]; [intros []|].
  destruct (response_AS rec_encodable g c (m0 :: ms) _ qa HI HE E) as (A1 & A2 & _ & _).
  intro H. apply in_app_or in H as [H|H]; [|apply in_app_or in H as [H|H]; [|apply in_app_or in H as [H|H]]].
  - destruct (qa_ucast qa) as [|x u] eqn:Eu; [destruct H|]. destruct H as [<-|[]].
    pose proof (construct_unicast_good rec_encodable (x :: u) (negb (port =? C_MDNS_PORT)) (qm_questions m0) id A1) as G.
    cbv zeta in G. destruct G as (Gq & Ga & Gu & Gd & Gf & Gi).
    unfold msg_soft, hdr_ok. rewrite Gf, Gi, Gu. split; [split; [exact flags_resp_u16|exact Hid]|].
    split; [destruct Gq as [-> | ->]; [apply Hqs; left; reflexivity|constructor]|].
    split; [apply good_answers_enc; exact Ga|]. split; [constructor|exact Gd].
  - destruct (qa_mcast_now qa) as [|x u] eqn:Eu; [destruct H|]. destruct H as [<-|[]].
    pose proof (construct_multicast_good rec_encodable (x :: u) A2) as G.
    cbv zeta in G. destruct G as (Gq & Ga & Gu & Gd & Gf & Gi).
    unfold msg_encodable, hdr_ok. rewrite Gf, Gi, Gu, Gq. split; [split; [exact flags_resp_u16|unfold u16; lia]|].
    split; [constructor|]. split; [apply good_answers_enc; exact Ga|]. split; [constructor|exact Gd].
  - destruct (qa_mcast_aggregate qa); [destruct H|]. destruct H as [<-|[]]. exact I.
  - destruct (qa_mcast_last_second qa); [destruct H|]. destruct H as [<-|[]]. exact I.
Qed.

(* encoder_contained: (a) an encodable message is always encoded; (b) if only the question names may break the label
   limit the only possible exception is NamePartTooLong; (c) under RegEncodable every multicast send of a query step is
   encoded and a unicast send can only fail with NamePartTooLong; (d) so send_gate lets no exception out *)
Theorem encoder_contained :
  (forall m, msg_encodable m -> exists ps, packets m = Ok ps) /\
  (forall m, msg_soft m -> (exists ps, packets m = Ok ps) \/ packets m = Raise NamePartTooLong) /\
  (forall n now msgs id addr port rq rd, RegInv (n_reg n) -> RegEncodable (n_reg n) -> QueryOk msgs id ->
     (forall t dest m, In (OSend t dest m) (snd (nstep n (LQuery now msgs id addr port rq rd))) ->
        match dest with
        | None => exists ps, packets m = Ok ps
        | Some _ => (exists ps, packets m = Ok ps) \/ packets m = Raise NamePartTooLong
        end) /\
     (forall e, ~ In (ORaise e) (send_gate (snd (nstep n (LQuery now msgs id addr port rq rd)))))).
Proof.
  split; [exact packets_encodable|]. split; [exact packets_soft|].
  intros n now msgs id addr port rq rd HI HE HQ.
  assert (Hsend : forall t dest m, In (OSend t dest m) (snd (nstep n (LQuery now msgs id addr port rq rd))) ->
        match dest with
        | None => exists ps, packets m = Ok ps
        | Some _ => (exists ps, packets m = Ok ps) \/ packets m = Raise NamePartTooLong
        end).
  { intros t dest m Hin. apply lquery_outs in Hin as (a & Ha & Ho).
    pose proof (query_actions_encodable _ _ _ _ _ _ a HI HE HQ Ha) as Hm.
    destruct a as [ad po msg|msg|t' s|t' s]; [| |destruct Ho|destruct Ho]; inversion Ho; subst.
    - apply packets_soft. exact Hm.
    - apply packets_encodable. exact Hm. }
  split; [exact Hsend|].
  intros e Hin. apply send_gate_raise in Hin as [Hin|(t & dest & m & Hin & Hp & Hd)].
  - apply lquery_outs in Hin as (a & _ & Ha). destruct a; try discriminate Ha; destruct Ha.
  - specialize (Hsend t dest m Hin). destruct dest as [d|].
    + destruct Hsend as [[ps Hps]|Hn]; [congruence|]. rewrite Hn in Hp. inversion Hp; subst e.
      specialize (Hd eq_refl). discriminate Hd.
    + destruct Hsend as [ps Hps]. congruence.
Qed.

(* ================================================================================================ *)
(* 7. no exception escapes                                                                           *)

(* ---- every node label keeps the registry invariant J (Proofs/C03_reg.v; J implies RegInv, bare RegInv is not
        inductive: C09_register) and the cache invariant, and never takes the silent cache fallbacks ---- *)
Lemma after_check_J n id k outs now : J (n_reg n) -> J (n_reg (fst (after_check n id k outs now))).
Proof.
  intro HJ. unfold after_check. cbv zeta.
  destruct (last outs CDone); try exact HJ;
    (unfold register_finish; destruct (reg_add (n_reg n) (ck_svc k)) as [g'|e] eqn:E; cbn [bind fst set_reg n_reg];
     [eapply J_add; eassumption|exact HJ]).
Qed.

Lemma after_check_cache n id k outs now : n_cache (fst (after_check n id k outs now)) = n_cache n.
Proof.
  unfold after_check. cbv zeta.
  destruct (last outs CDone); try reflexivity;
    (destruct (register_finish (n_reg n) k) as [[g' task]|e]; reflexivity).
Qed.

Lemma unregister_fold_J (l : list svc) : forall g, J g -> J (fold_left (fun g s => reg_remove g (s_key s)) l g).
Proof. induction l as [|s l IH]; intros g HJ; cbn [fold_left]; [exact HJ|]. apply IH. apply J_remove. exact HJ. Qed.

Lemma nstep_J n l : J (n_reg n) -> J (n_reg (fst (nstep n l))).
Proof.
  intro HJ. destruct l; [| |destruct (nstep_LQuery_frame n now msgs id addr port rnd_q rnd_d) as ((E & _) & _); rewrite E; exact HJ|..];
    cbn [nstep].
  - exact HJ.
  - exact HJ.
  - destruct (async_ready_body (if delayq then n_qd n else n_q n) now) as [q' sent]. destruct delayq; exact HJ.
  - destruct (check_start (n_cache n) now s allow strict coop) as [[k outs]|e]; [|exact HJ].
    pose proof (after_check_J n id k outs now HJ) as H. destruct (after_check n id k outs now) as [n' o]. exact H.
  - destruct (d_get Z.eqb (n_checks n) id) as [k|]; [|exact HJ].
    destruct (check_turn (n_cache n) now k) as [k' outs].
    pose proof (after_check_J n id k' outs now HJ) as H. destruct (after_check n id k' outs now) as [n' o]. exact H.
  - destruct (d_get Z.eqb (n_tasks n) id) as [b|]; [|exact HJ].
    destruct (bcast_turn b now) as [b' outs]. exact HJ.
  - destruct (d_get text_eqb (g_services (n_reg n)) key) as [s|]; [|exact HJ].
    unfold unregister_service. cbv zeta.
    destruct (intern_list (n_tbl n) _) as [tbl ids]. cbn [fst set_queues set_reg n_reg]. apply J_remove. exact HJ.
  - unfold update_service, reg_update.
    destruct (reg_add (reg_remove (n_reg n) (s_key s)) s) as [g'|e] eqn:E; cbn [bind]; [|exact HJ].
    cbn [fst set_reg n_reg]. eapply J_add; [|exact E]. apply J_remove. exact HJ.
  - unfold unregister_all.
    destruct (flat_map (fun s => broadcast_records s (Some 0) true) (all_services (n_reg n))); [exact HJ|].
    cbn [fst n_reg]. apply unregister_fold_J. exact HJ.
  - exact HJ.
  - exact HJ.
Qed.

(* the cache after a node label: the fallbacks `match i_final .. with Raise _ => old cache` are never taken *)
Lemma nstep_Inv n l : Inv (n_cache n) ->
  Inv (n_cache (fst (nstep n l))) /\
  (forall now answers, l = LResp now answers -> exists c', i_final (ingest now answers (n_cache n)) = Ok c' /\ n_cache (fst (nstep n l)) = c') /\
  (forall now, l = LPurge now -> exists c', pg_final (purge now (n_cache n)) = Ok c' /\ n_cache (fst (nstep n l)) = c').
Proof.
  intro HI.
  assert (Hother : n_cache (fst (nstep n l)) = n_cache n ->
            (forall now answers, l <> LResp now answers) -> (forall now, l <> LPurge now) ->
            Inv (n_cache (fst (nstep n l))) /\
            (forall now answers, l = LResp now answers -> exists c', i_final (ingest now answers (n_cache n)) = Ok c' /\ n_cache (fst (nstep n l)) = c') /\
            (forall now, l = LPurge now -> exists c', pg_final (purge now (n_cache n)) = Ok c' /\ n_cache (fst (nstep n l)) = c')).
  { intros E H1 H2. rewrite E. split; [exact HI|]. split; [intros now answers Hl; destruct (H1 _ _ Hl)|intros now Hl; destruct (H2 _ Hl)]. }
  destruct l; try (apply Hother; [|intros; discriminate|intros; discriminate]);
    [| |destruct (nstep_LQuery_frame n now msgs id addr port rnd_q rnd_d) as (_ & E & _); exact E|..]; cbn [nstep].
  - destruct (ingest_inv now answers (n_cache n) HI) as (c' & E & Hc' & _).
    cbn [fst set_cache n_cache]. rewrite E. split; [exact Hc'|]. split.
    + intros now0 answers0 Hl. inversion Hl; subst. exists c'. split; [exact E|reflexivity].
    + intros now0 Hl. discriminate Hl.
  - destruct (purge_inv now (n_cache n) HI) as (c' & E & Hc').
    cbn [fst set_cache n_cache]. rewrite E. split; [exact Hc'|]. split.
    + intros now0 answers0 Hl. discriminate Hl.
    + intros now0 Hl. inversion Hl; subst. exists c'. split; [exact E|reflexivity].
  - destruct (async_ready_body (if delayq then n_qd n else n_q n) now) as [q' sent]. destruct delayq; reflexivity.
  - destruct (check_start (n_cache n) now s allow strict coop) as [[k outs]|e]; [|reflexivity].
    pose proof (after_check_cache n id k outs now) as H. destruct (after_check n id k outs now) as [n' o]. exact H.
  - destruct (d_get Z.eqb (n_checks n) id) as [k|]; [|reflexivity].
    destruct (check_turn (n_cache n) now k) as [k' outs].
    pose proof (after_check_cache n id k' outs now) as H. destruct (after_check n id k' outs now) as [n' o]. exact H.
  - destruct (d_get Z.eqb (n_tasks n) id) as [b|]; [|reflexivity].
    destruct (bcast_turn b now) as [b' outs]. reflexivity.
  - destruct (d_get text_eqb (g_services (n_reg n)) key) as [s|]; [|reflexivity].
    destruct (unregister_service (n_reg n) s) as [[g' task] withdrawn].
    destruct (intern_list (n_tbl n) withdrawn) as [tbl ids]. reflexivity.
  - destruct (update_service (n_reg n) s) as [[g' task]|e]; reflexivity.
  - destruct (unregister_all (n_reg n)) as [g' rs]. destruct rs; reflexivity.
  - reflexivity.
  - reflexivity.
Qed.

(* ---- the invariants along a run ---- *)
Definition QOk (x : qmsg * Z) : Prop := u16 (snd x) /\ Forall q_soft (qm_questions (fst x)).

(* every DNSIncoming kept for a deferred packet was decoded from a real datagram *)
Definition MsgsOk (f : fnode) : Prop := forall k x, In (k, x) (f_msgs f) -> QOk x.

Definition Good (f : fnode) : Prop :=
  FInv f /\ MsgsOk f /\ J (n_reg (f_node f)) /\ Inv (n_cache (f_node f)) /\ RegEncodable (n_reg (f_node f)).

Lemma Good_init : Good fnode_init.
Proof.
  split; [exact FInv_init|]. split; [intros k x []|]. split; [exact J_empty|]. split; [apply inv_empty|].
  intros s [].
Qed.

Lemma respond_node f ls' msgs' a port packets now rq rd :
  f_node (fst (respond f ls' msgs' a port packets now rq rd)) = f_node f \/
  exists nl, f_node (fst (respond f ls' msgs' a port packets now rq rd)) = fst (nstep (f_node f) nl).
Proof.
  unfold respond. destruct (flat_map _ packets) as [|[q i] rest]; [left; reflexivity|].
  right. eexists. destruct (nstep (f_node f) _) as [n' outs] eqn:E. cbn [fst f_node]. rewrite E. reflexivity.
Qed.

Lemma fstep_node f l :
  f_node (fst (fstep f l)) = f_node f \/ exists nl, f_node (fst (fstep f l)) = fst (nstep (f_node f) nl).
Proof.
  destruct l as [data addr port now tc rq rd|addr port now rq rd|nl]; cbn [fstep].
  - destruct (Z.of_nat (length data) >? C_MAX_MSG_ABSOLUTE); [left; reflexivity|].
    destruct (is_duplicate (f_ls f) data now); [left; reflexivity|].
    destruct (m_escaped (parse data now None FRAMES)); [left; reflexivity|].
    destruct (datagram _ _ _ _ _ _) as [ls' o].
    destruct o; try (left; reflexivity).
    + right. exists (LResp now (m_answers (parse data now None FRAMES))). reflexivity.
    + apply respond_node.
  - destruct (respond_query (f_ls f) None addr) as [ls' o].
    destruct o; try (left; reflexivity). apply respond_node.
  - right. exists nl. destruct (nstep (f_node f) nl) as [n' outs]. reflexivity.
Qed.

Lemma fstep_msgs f l :
  f_msgs (fst (fstep f l)) = f_msgs f \/
  exists data addr port now tc rq rd, l = FDatagram data addr port now tc rq rd /\
    f_msgs (fst (fstep f l)) = d_set bytes_eqb (f_msgs f) (mkey addr data)
                                 (qmsg_of (parse data now None FRAMES) now, m_id (parse data now None FRAMES)).
Proof.
  destruct l as [data addr port now tc rq rd|addr port now rq rd|nl]; cbn [fstep].
  - destruct (Z.of_nat (length data) >? C_MAX_MSG_ABSOLUTE); [left; reflexivity|].
    destruct (is_duplicate (f_ls f) data now); [left; reflexivity|].
    destruct (m_escaped (parse data now None FRAMES)); [left; reflexivity|].
    fold (waiting f addr data). fold (msgs_after f addr data now).
    destruct (datagram _ _ _ _ _ _) as [ls' o].
    destruct o; try (left; reflexivity).
    + cbn [fst f_msgs]. destruct (msgs_after_cases f addr data now) as [-> | ->]; [left; reflexivity|].
      right. exists data, addr, port, now, tc, rq, rd. split; reflexivity.
    + rewrite (proj2 (respond_ls _ _ _ _ _ _ _ _ _)).
      destruct (msgs_after_cases f addr data now) as [-> | ->]; [left; reflexivity|].
      right. exists data, addr, port, now, tc, rq, rd. split; reflexivity.
  - destruct (respond_query (f_ls f) None addr) as [ls' o].
    destruct o; try (left; reflexivity). left. apply (proj2 (respond_ls _ _ _ _ _ _ _ _ _)).
  - left. destruct (nstep (f_node f) nl) as [n' outs]. reflexivity.
Qed.

Lemma parse_QOk data now : Forall is_byte data ->
  QOk (qmsg_of (parse data now None FRAMES) now, m_id (parse data now None FRAMES)).
Proof.
  intro Hb. split; cbn [fst snd qm_questions qmsg_of]; [apply parse_id_u16|apply parse_questions_soft]; exact Hb.
Qed.

(* the labels of a run: real datagrams, pending timers, and node labels that keep the registry encodable
   (e.g. only encodable services are registered / renamed to) *)
Definition label_ok (f : fnode) (l : flabel) : Prop :=
  match l with
  | FNode nl => RegEncodable (n_reg (fst (nstep (f_node f) nl)))
  | _ => wire_label f l
  end.

Fixpoint run_ok (f : fnode) (ls : list flabel) : Prop :=
  match ls with
  | [] => True
  | l :: rest => label_ok f l /\ run_ok (fst (fstep f l)) rest
  end.

Theorem Good_step : forall f l, Good f -> label_ok f l -> Good (fst (fstep f l)).
Proof.
  intros f l (H1 & H2 & H3 & H4 & H5) Hl.
  split; [apply FInv_step; exact H1|]. split.
  { destruct (fstep_msgs f l) as [E|(data & addr & port & now & tc & rq & rd & -> & E)]; unfold MsgsOk; rewrite E; [exact H2|].
    intros k x Hin. apply bset_In in Hin as [Hin| ->]; [exact (H2 k x Hin)|]. apply parse_QOk. exact Hl. }
  assert (Hreg : J (n_reg (f_node (fst (fstep f l)))) /\ Inv (n_cache (f_node (fst (fstep f l))))).
  { destruct (fstep_node f l) as [E|[nl E]]; rewrite E; [split; assumption|].
    split; [apply nstep_J; exact H3|apply nstep_Inv; exact H4]. }
  destruct Hreg as [R1 R2]. split; [exact R1|]. split; [exact R2|].
  destruct l as [data addr port now tc rq rd|addr port now rq rd|nl].
  - destruct (datagrams_touch_only f (FDatagram data addr port now tc rq rd) I) as (E & _). rewrite E. exact H5.
  - destruct (datagrams_touch_only f (FTimer addr port now rq rd) I) as (E & _). rewrite E. exact H5.
  - cbn [label_ok] in Hl. cbn [fstep]. destruct (nstep (f_node f) nl) as [n' outs]. exact Hl.
Qed.

Lemma Good_run : forall ls f, Good f -> run_ok f ls -> Good (fstate f ls).
Proof.
  induction ls as [|l ls IH]; intros f HG Hr; [exact HG|].
  destruct Hr as [Hl Hr]. cbn [fstate]. apply IH; [apply Good_step; assumption|exact Hr].
Qed.

(* one datagram / pending-timer label on a good state lets no exception out *)
Theorem wire_step_silent : forall f l, Good f -> wire_label f l -> forall e, ~ In (ORaise e) (snd (fstep f l)).
Proof.
  intros f l (H1 & H2 & H3 & H4 & H5) Hl e Hin.
  destruct (fstep_wire_cases QOk f l H1 (wire_timer_ok f l Hl) H2) as [E|data addr port now tc rq rd e0 El Eesc E|now qm id rest addr port rq rd HQ E].
  - intros data addr port now tc rq rd ->. apply parse_QOk. exact Hl.
  - rewrite E in Hin. destruct Hin.
  - subst l. cbn [wire_label] in Hl. rewrite (decoder_contained data now Hl) in Eesc. discriminate Eesc.
  - rewrite E in Hin.
    destruct encoder_contained as (_ & _ & Hc).
    assert (HQO : QueryOk (qm :: map fst rest) id).
    { inversion HQ as [|x l0 [Hx1 Hx2] Hrest]; subst x l0. cbn [fst snd] in Hx1, Hx2. split; [exact Hx1|].
      intros m [<-|Hm]; [exact Hx2|]. apply in_map_iff in Hm as (x & <- & Hx).
      rewrite Forall_forall in Hrest. apply (Hrest x Hx). }
    destruct (Hc (f_node f) now (qm :: map fst rest) id addr port rq rd (J_RegInv _ H3) H5 HQO) as [_ Hno].
    exact (Hno e Hin).
Qed.

(* the main theorem *)
Theorem no_exception_escapes : forall ls, run_ok fnode_init ls ->
  let f := fstate fnode_init ls in
  (FInv f /\ RegInv (n_reg (f_node f)) /\ Inv (n_cache (f_node f)) /\ RegEncodable (n_reg (f_node f))) /\
  forall l, wire_label f l ->
    let f' := fst (fstep f l) in
    (forall e, ~ In (ORaise e) (snd (fstep f l))) /\
    FInv f' /\ RegInv (n_reg (f_node f')) /\ Inv (n_cache (f_node f')) /\ RegEncodable (n_reg (f_node f')) /\
    n_reg (f_node f') = n_reg (f_node f).
Proof.
  intros ls Hr. cbv zeta.
  pose proof (Good_run ls fnode_init Good_init Hr) as HG.
  split.
  { destruct HG as (H1 & _ & H3 & H4 & H5). split; [exact H1|]. split; [apply (J_RegInv _ H3)|]. split; assumption. }
  intros l Hl. split; [apply wire_step_silent; assumption|].
  assert (Hl' : label_ok (fstate fnode_init ls) l) by (destruct l; [exact Hl|exact Hl|destruct Hl]).
  destruct (Good_step _ l HG Hl') as (H1 & _ & H3 & H4 & H5).
  split; [exact H1|]. split; [apply J_RegInv; exact H3|]. split; [exact H4|]. split; [exact H5|].
  apply (datagrams_touch_only (fstate fnode_init ls) l). destruct l; [exact I|exact I|destruct Hl].
Qed.

(* ... and along the run the model's silent fallbacks `match i_final .. with Raise _ => old cache` (LResp, LPurge) are
   never taken: ingest and purge always return Ok *)
Theorem fallbacks_never_taken : forall ls, run_ok fnode_init ls ->
  let c := n_cache (f_node (fstate fnode_init ls)) in
  (forall now answers, exists c', i_final (ingest now answers c) = Ok c' /\ Inv c') /\
  (forall now, exists c', pg_final (purge now c) = Ok c' /\ Inv c').
Proof.
  intros ls Hr. cbv zeta. destruct (Good_run ls fnode_init Good_init Hr) as (_ & _ & _ & H4 & _). split.
  - intros now answers. destruct (ingest_inv now answers _ H4) as (c' & E & Hc & _). exists c'. split; assumption.
  - intros now. apply purge_inv. exact H4.
Qed.


(* ================================================================================================ *)
(* non-vacuity and necessity of the hypotheses                                                       *)

Definition ex_type : text := [95;120;46;95;116;99;112;46;108;111;99;97;108;46].          (* "_x._tcp.local." *)
Definition ex_name : text := 97 :: 46 :: ex_type.                                         (* "a._x._tcp.local." *)
Definition ex_host : text := [104;46;108;111;99;97;108;46].                               (* "h.local." *)
Definition ex_svc (server : text) : svc :=
  {| s_type := ex_type; s_name := ex_name; s_server := server; s_port := 80; s_weight := 0; s_priority := 0;
     s_text := [0]; s_host_ttl := 120; s_other_ttl := 4500; s_v4 := [[10;0;0;1]]; s_v6 := [] |}.
Definition ex_register (server : text) : flabel := FNode (LRegister 1 0 (ex_svc server) true false true).
(* the query "SRV a._x._tcp.local. IN", id 7 *)
Definition ex_query : bytes :=
  [0;7;0;0;0;1;0;0;0;0;0;0; 1;97; 2;95;120; 4;95;116;99;112; 5;108;111;99;97;108; 0; 0;33; 0;1].
(* the same question followed by one whose first label is 22 invalid bytes: decoded to 22 x U+FFFD = 66 UTF-8 bytes *)
Definition ex_query_bad : bytes :=
  [0;7;0;0;0;2;0;0;0;0;0;0; 1;97; 2;95;120; 4;95;116;99;112; 5;108;111;99;97;108; 0; 0;33; 0;1]
  ++ (22 :: repeat 255 22) ++ [2;95;120; 4;95;116;99;112; 5;108;111;99;97;108; 0; 0;33; 0;1].

Lemma ex_bytes : Forall is_byte ex_query /\ Forall is_byte ex_query_bad.
Proof. split; repeat constructor; unfold is_byte; lia. Qed.

(* a legitimate run: an encodable service is registered, then the query arrives - from the mDNS port (multicast
   reply) and from another port (unicast + multicast reply); both are answered and nothing is raised *)
Example ex_run :
  let ls := [ex_register ex_host; FDatagram ex_query [49] 5353 1000 450 20 20] in
  run_ok fnode_init ls /\
  (exists m, snd (fstep (fstate fnode_init [ex_register ex_host]) (FDatagram ex_query [49] 5353 1000 450 20 20))
             = [OSend 1000 None m]) /\
  (exists m1 m2, snd (fstep (fstate fnode_init [ex_register ex_host]) (FDatagram ex_query [49] 1234 1000 450 20 20))
             = [OSend 1000 (Some ([49], 1234)) m1; OSend 1000 None m2]).
Proof.
  cbv zeta. split; [|split].
  - cbn [run_ok]. split; [|split; [exact (proj1 ex_bytes)|exact I]].
    cbn [label_ok ex_register]. apply RegEncodable_fields.
    assert (E : registered (n_reg (fst (nstep (f_node fnode_init) (LRegister 1 0 (ex_svc ex_host) true false true)))) = [ex_svc ex_host])
      by (vm_compute; reflexivity).
    rewrite E. intros s [<-|[]]. apply svc_fields_okb_ok. vm_compute. reflexivity.
  - eexists. vm_compute. reflexivity.
  - eexists. eexists. vm_compute. reflexivity.
Qed.

(* RegEncodable is necessary: the host name of a service is not validated at registration; with a 66-byte label in it
   the SRV answer cannot be encoded and NamePartTooLong escapes from datagram_received - although the datagram is harmless *)
Example ex_unencodable_service_escapes :
  let bad_host := repeat 65533 22 ++ [46;108;111;99;97;108;46] in
  let f := fstate fnode_init [ex_register bad_host] in
  snd (fstep fnode_init (ex_register bad_host)) = [OChecked; ORegistered [ex_name]] /\
  snd (fstep f (FDatagram ex_query [49] 5353 1000 450 20 20)) = [ORaise NamePartTooLong].
Proof. vm_compute. split; reflexivity. Qed.

(* the question echo: with an encodable registry, a unicast query carrying a question that cannot be re-encoded gets
   no unicast reply (the NamePartTooLong of the echo is dropped by send_gate) and nothing escapes *)
Example ex_bad_question_dropped :
  let f := fstate fnode_init [ex_register ex_host] in
  snd (fstep f (FDatagram ex_query_bad [49] 1234 1000 450 20 20)) = [].
Proof. vm_compute. reflexivity. Qed.

Print Assumptions oversize_ignored.
Print Assumptions duplicate_ignored.
Print Assumptions at_limit_processed.
Print Assumptions decoder_contained.
Print Assumptions datagrams_touch_only.
Print Assumptions FInv_init.
Print Assumptions FInv_step.
Print Assumptions fstep_wire_cases.
Print Assumptions services_survive.
Print Assumptions Good_step.
Print Assumptions no_index_error.
Print Assumptions encoder_contained.
Print Assumptions query_actions_encodable.
Print Assumptions wire_step_silent.
Print Assumptions no_exception_escapes.
Print Assumptions fallbacks_never_taken.
