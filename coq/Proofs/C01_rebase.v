(* C01 stage 3, part a: the writers never read the bytes already written, so the two RDLENGTH placeholder
   bytes that write_record patches afterwards can equivalently be written with their final value up front. *)
From Coq Require Import ZArith List Bool Lia ZifyBool.
From ZC Require Import Model.Base Model.PyRec Model.Dict Model.Re Model.Utf8 Model.Names Model.WireEnc
                       Spec.Rfc1035 Gen.Const Gen.DnsPure Gen.Shapes.
From ZC Require Import Proofs.C01_utf8 Proofs.C01_defs.
Import ListNotations.
Open Scope Z_scope.
Ltac Zify.zify_post_hook ::= Z.to_euclidean_division_equations.

Definition with_rev (st : enc) (rv : bytes) : enc :=
  {| e_rev := rv; e_size := e_size st; e_names := e_names st; e_allow_long := e_allow_long st |}.

Definition Rebase (W : enc -> result enc) : Prop :=
  forall st st' rv, W st = Ok st' ->
    exists extra, e_rev st' = extra ++ e_rev st /\ e_size st' = e_size st + len extra /\
                  W (with_rev st rv) = Ok (with_rev st' (extra ++ rv)).

Lemma rb_put bs : Rebase (fun st => Ok (put st bs)).
Proof.
  intros st st' rv H. inversion H; subst st'. exists (rev bs).
  split; [cbn [put e_rev]; apply rev_append_rev|].
  split; [rewrite put_size; unfold len; rewrite rev_length; reflexivity|].
  unfold put, with_rev. cbn [e_rev e_size e_names e_allow_long]. rewrite rev_append_rev. reflexivity.
Qed.

Lemma rb_guard (c : bool) e W : Rebase W -> Rebase (fun st => if c then Raise e else W st).
Proof. intros HW st st' rv H. destruct c; [discriminate|]. apply HW. exact H. Qed.

Lemma rb_bind W1 W2 : Rebase W1 -> Rebase W2 -> Rebase (fun st => bind (W1 st) W2).
Proof.
  intros H1 H2 st st' rv H. destruct (W1 st) as [s1|e] eqn:E1; [|discriminate]. cbn [bind] in H.
  destruct (H1 st s1 rv E1) as (x1 & Hr1 & Hs1 & Hw1).
  destruct (H2 s1 st' (x1 ++ rv) H) as (x2 & Hr2 & Hs2 & Hw2).
  exists (x2 ++ x1). split; [rewrite Hr2, Hr1, app_assoc; reflexivity|].
  split; [unfold len in *; rewrite app_length; lia|].
  rewrite Hw1. cbn [bind]. rewrite Hw2, app_assoc. reflexivity.
Qed.

Lemma rb_ext W W' : (forall st, W st = W' st) -> Rebase W' -> Rebase W.
Proof.
  intros He H st st' rv Hw. rewrite He in Hw. destruct (H st st' rv Hw) as (x & H1 & H2 & H3).
  exists x. rewrite He. auto.
Qed.

Lemma rb_write_byte v : Rebase (fun st => write_byte st v).
Proof. unfold write_byte. apply rb_guard, rb_put. Qed.

Lemma rb_write_short v : Rebase (fun st => write_short st v).
Proof. unfold write_short. apply rb_guard, rb_put. Qed.

Lemma rb_write_int v : Rebase (fun st => write_int st v).
Proof. unfold write_int. apply rb_guard, rb_put. Qed.

Lemma rb_write_string b : Rebase (fun st => Ok (write_string st b)).
Proof. unfold write_string. apply rb_put. Qed.

Lemma rb_write_utf s : Rebase (fun st => write_utf st s).
Proof.
  unfold write_utf. destruct (utf8_encode s) as [u|e]; cbn [bind]; [|intros st st' rv H; discriminate].
  apply rb_guard. apply rb_bind; [apply rb_write_byte|apply rb_write_string].
Qed.

Lemma rb_write_character_string b : Rebase (fun st => write_character_string st b).
Proof.
  unfold write_character_string. cbv zeta. apply rb_guard.
  apply rb_bind; [apply rb_write_byte|apply rb_write_string].
Qed.

Lemma rb_write_link i : Rebase (fun st => write_link st i).
Proof. unfold write_link. apply rb_bind; apply rb_write_byte. Qed.

Lemma rb_names_set W k (v : enc -> Z) :
  (forall st rv, v (with_rev st rv) = v st) ->
  Rebase W -> Rebase (fun st => W (names_set st k (v st))).
Proof.
  intros Hv HW st st' rv H.
  destruct (HW _ st' rv H) as (x & H1 & H2 & H3). exists x.
  split; [exact H1|]. split; [exact H2|]. rewrite Hv. exact H3.
Qed.

Lemma rb_write_name_rest : forall labels ss nl, Rebase (fun st => write_name_rest st ss nl labels).
Proof.
  induction labels as [|l rest IH]; intros ss nl.
  - cbn [write_name_rest]. apply rb_write_byte.
  - intros st st' rv H. cbn [write_name_rest] in *.
    change (names_get (with_rev st rv) (join_dot (l :: rest))) with (names_get st (join_dot (l :: rest))).
    destruct (negb (names_get st (join_dot (l :: rest)) =? 0)).
    + apply (rb_write_link _ st st' rv H).
    + destruct (utf8_len (join_dot (l :: rest))) as [plen|e]; [|discriminate]. cbn [bind] in *.
      exact (rb_names_set (fun s => bind (write_utf s l) (fun st2 => write_name_rest st2 ss nl rest))
               (join_dot (l :: rest)) (fun _ => ss + nl - plen) (fun _ _ => eq_refl)
               (rb_bind _ _ (rb_write_utf l) (IH ss nl)) st st' rv H).
Qed.

Lemma rb_write_name n : Rebase (fun st => write_name st n).
Proof.
  intros st st' rv H. unfold write_name in *. cbv zeta in *.
  change (names_get (with_rev st rv) (strip_dot n)) with (names_get st (strip_dot n)).
  destruct (negb (names_get st (strip_dot n) =? 0)).
  - apply (rb_write_link _ st st' rv H).
  - destruct (split_dot (strip_dot n)) as [|l0 rest]; [discriminate|].
    destruct rest as [|l1 rest].
    + exact (rb_names_set (fun s => bind (write_utf s l0) (fun st2 => write_byte st2 0))
               (strip_dot n) e_size (fun _ _ => eq_refl)
               (rb_bind _ _ (rb_write_utf l0) (rb_write_byte 0)) st st' rv H).
    + destruct (utf8_len (strip_dot n)) as [nlen|e].
      * cbn [bind] in *.
        change (e_size (with_rev st rv)) with (e_size st).
        exact (rb_names_set (fun s => bind (write_utf s l0) (fun st2 => write_name_rest st2 (e_size st) nlen (l1 :: rest)))
               (strip_dot n) e_size (fun _ _ => eq_refl)
               (rb_bind _ _ (rb_write_utf l0) (rb_write_name_rest (l1 :: rest) (e_size st) nlen)) st st' rv H).
      * exfalso. destruct (write_utf (names_set st (strip_dot n) (e_size st)) l0); discriminate.
Qed.

Lemma rb_write_rdata r : Rebase (fun st => write_rdata st r).
Proof.
  unfold write_rdata. destruct (p_kind r).
  - intros st st' rv H; discriminate.
  - apply rb_write_string.
  - destruct (utf8_encode (p_cpu r)) as [cpu|e]; cbn [bind]; [|intros st st' rv H; discriminate].
    apply rb_bind; [apply rb_write_character_string|].
    destruct (utf8_encode (p_os r)) as [os|e]; cbn [bind]; [|intros st st' rv H; discriminate].
    apply rb_write_character_string.
  - apply rb_write_name.
  - apply rb_write_string.
  - apply rb_bind; [apply rb_write_short|].
    apply rb_bind; [apply rb_write_short|].
    apply rb_bind; [apply rb_write_short|]. apply rb_write_name.
  - destruct (nsec_bitmap (sorted (p_rdtypes r)) (repeat 0 32) 0) as [[bitmap total]|e]; cbn [bind];
      [|intros st st' rv H; discriminate].
    apply rb_guard.
    apply rb_bind; [apply rb_write_name|].
    apply rb_bind; [apply rb_write_byte|].
    apply rb_bind; [apply rb_write_byte|]. apply rb_write_string.
Qed.

(* patch_short on the reversed buffer *)
Lemma patch_short_eq (extra rest : bytes) (a b v : Z) :
  patch_short (extra ++ [a; b] ++ rest) (Z.to_nat (len extra)) v = extra ++ [v mod 256; v / 256] ++ rest.
Proof.
  unfold patch_short, len. rewrite Nat2Z.id. rewrite firstn_length_app.
  f_equal. f_equal.
  replace (length extra + 2)%nat with (length (extra ++ [a; b])) by (rewrite app_length; reflexivity).
  change (extra ++ [a; b] ++ rest) with (extra ++ ([a; b] ++ rest)).
  rewrite app_assoc. apply skipn_length_app.
Qed.

(* write_record as a straight-line sequence of appends *)
Lemma write_record_linear mc st r now res :
  write_record mc st r now = Ok res ->
  exists s1 s2 s3 s4 s7 rdlen,
    write_name st (p_name r) = Ok s1 /\
    write_short s1 (p_type_ r) = Ok s2 /\
    write_record_class mc s2 r = Ok s3 /\
    write_int s3 (ttl_field r now) = Ok s4 /\
    0 <= rdlen <= 65535 /\
    write_rdata (put s4 [rdlen / 256; rdlen mod 256]) r = Ok s7 /\
    rdlen = e_size s7 - (e_size s4 + 2) /\
    res = check_limit_or_rollback s7 st.
Proof.
  unfold write_record. intro H.
  destruct (write_name st (p_name r)) as [s1|e] eqn:E1; [|discriminate]. cbn [bind] in H.
  destruct (write_short s1 (p_type_ r)) as [s2|e] eqn:E2; [|discriminate]. cbn [bind] in H.
  destruct (write_record_class mc s2 r) as [s3|e] eqn:E3; [|discriminate]. cbn [bind] in H.
  destruct (write_int s3 (ttl_field r now)) as [s4|e] eqn:E4; [|discriminate]. cbn [bind] in H.
  change (write_short s4 0) with (Ok (put s4 [0; 0])) in H. cbn [bind] in H.
  destruct (write_rdata (put s4 [0; 0]) r) as [s6|e] eqn:E6; [|discriminate]. cbn [bind] in H.
  set (rdlen := e_size s6 - e_size (put s4 [0; 0])) in *.
  destruct ((rdlen <? 0) || (65535 <? rdlen)) eqn:Erd; [discriminate|].
  inversion H as [Hres]. clear H.
  destruct (rb_write_rdata r (put s4 [0; 0]) s6 ([rdlen mod 256; rdlen / 256] ++ e_rev s4) E6)
    as (extra & Hr & Hs & Hw).
  assert (Hlen : rdlen = len extra) by (unfold rdlen; lia).
  exists s1, s2, s3, s4.
  exists (with_rev s6 (extra ++ [rdlen mod 256; rdlen / 256] ++ e_rev s4)), rdlen.
  split; [reflexivity|]. split; [exact E2|]. split; [exact E3|]. split; [exact E4|].
  split; [lia|].
  split; [exact Hw|].
  split; [cbn [with_rev e_size]; rewrite put_size in *; unfold len in *; cbn [length] in *; lia|].
  f_equal. unfold with_rev. rewrite Hr. cbn [put e_rev rev_append].
  rewrite Hlen at 1.
  change (extra ++ 0 :: 0 :: e_rev s4) with (extra ++ [0; 0] ++ e_rev s4).
  rewrite patch_short_eq. reflexivity.
Qed.
