(* C15 (helper): what the decoder (Model/WireDec.v) hands to the query path for a real datagram:
   question names are UTF-8 encodable texts of at most 253 characters (no lone surrogate ever comes out of
   decode('utf-8', 'replace')), question types and the message id are 16-bit, and an exception recorded in
   m_escaped is never one of the classes the decoder catches. *)
From Coq Require Import ZArith List Bool Lia ZifyBool.
From ZC Require Import Model.Base Model.PyRec Model.Dict Model.Utf8 Model.WireDec Gen.Const Gen.Shapes.
From ZC Require Import Proofs.C02_total Proofs.C15_enc.
Import ListNotations.
Open Scope Z_scope.
Ltac Zify.zify_post_hook ::= Z.to_euclidean_division_equations.

(* ---- decode('utf-8', 'replace') never yields a surrogate ---- *)
Lemma decode_nsur : forall f b, nsur (utf8_decode_fuel f b).
Proof.
  unfold nsur. induction f as [|f IH]; intro b; [constructor|]. cbn [utf8_decode_fuel].
  destruct b as [|b0 r0]; [constructor|].
  repeat match goal with
  | |- Forall _ (if ?c then _ else _) => destruct c eqn:?
  | |- Forall _ (match ?l with [] => _ | _ :: _ => _ end) => destruct l
  | |- Forall _ (_ :: _) => constructor; [|try apply IH]
  | |- Forall _ [] => constructor
  end;
  unfold second_ok in *; unfold is_surrogate, is_cont, FFFD in *;
  repeat match goal with
  | H : (if ?c then _ else _) = _ |- _ => destruct c eqn:?
  end; lia.
Qed.

Lemma decode_replace_nsur b : nsur (utf8_decode_replace b).
Proof. apply decode_nsur. Qed.

Lemma join_labels_nsur ls : Forall nsur ls -> nsur (join_labels ls).
Proof.
  induction ls as [|l ls IH]; intro H; [constructor|].
  inversion H as [|l' ls' Hl Hls]; subst l' ls'. cbn [join_labels].
  destruct ls as [|y r]; [exact Hl|].
  apply nsur_app. split; [exact Hl|]. constructor; [reflexivity|apply IH; exact Hls].
Qed.

(* ---- stateful post-conditions: the name cache only ever holds surrogate-free labels ---- *)
Definition CI (s : dstate) : Prop := forall k ls, In (k, ls) (d_cache s) -> Forall nsur ls.

Definition dp {A} (P : A -> Prop) (r : dres A) : Prop :=
  match r with DOk a s => P a /\ CI s | DErr _ s => CI s end.

Lemma dp_bind {A B} (P1 : A -> Prop) (P2 : B -> Prop) (m : M A) (f : A -> M B) s :
  dp P1 (m s) -> (forall a s', P1 a -> CI s' -> dp P2 (f a s')) -> dp P2 (mbind m f s).
Proof. unfold mbind. intros Hm Hf. destruct (m s) as [a s'|e s']; cbn [dp] in *; [apply Hf; apply Hm|exact Hm]. Qed.

Lemma zd_get_In {V} (d : list (Z * V)) k v : d_get Z.eqb d k = Some v -> In (k, v) d.
Proof.
  induction d as [|[k' v'] d IH]; cbn [d_get]; [discriminate|].
  destruct (Z.eqb_spec k' k) as [->|Hne]; intro H; [inversion H; left; reflexivity|right; apply IH; exact H].
Qed.

Lemma zd_set_In {V} (d : list (Z * V)) k v k0 v0 : In (k0, v0) (d_set Z.eqb d k v) -> In (k0, v0) d \/ v0 = v.
Proof.
  induction d as [|[k' v'] d IH]; cbn [d_set].
  - intros [H|[]]. inversion H. right. reflexivity.
  - destruct (k' =? k).
    + intros [H|H]; [inversion H; right; reflexivity|left; right; exact H].
    + intros [H|H]; [left; left; exact H|]. destruct (IH H) as [H'|H']; [left; right; exact H'|right; exact H'].
Qed.

Lemma CI_set s c : CI s -> (forall k ls, In (k, ls) c -> Forall nsur ls) -> CI {| d_off := d_off s; d_cache := c |}.
Proof. intros _ H. exact H. Qed.

Lemma CI_off s o : CI s -> CI {| d_off := o; d_cache := d_cache s |}.
Proof. intro H. exact H. Qed.

Section Dec.
  Variable data : bytes.
  Hypothesis Hb : Forall (fun b => 0 <= b < 256) data.

  Lemma byte_at_dp i s : CI s -> dp (fun b => 0 <= b < 256) (byte_at data i s).
  Proof.
    intro Hc. unfold byte_at. destruct (i <? 0); [exact Hc|].
    destruct (nth_error data (Z.to_nat i)) as [b|] eqn:En; [|exact Hc].
    cbn [ret dp]. split; [|exact Hc]. apply nth_error_In in En. rewrite Forall_forall in Hb. exact (Hb b En).
  Qed.

  Lemma short_at_dp i s : CI s -> dp u16 (short_at data i s).
  Proof.
    intro Hc. unfold short_at.
    apply (dp_bind (fun b => 0 <= b < 256)); [apply byte_at_dp; exact Hc|]. intros hi s1 Hhi Hc1.
    apply (dp_bind (fun b => 0 <= b < 256)); [apply byte_at_dp; exact Hc1|]. intros lo s2 Hlo Hc2.
    cbn [ret dp]. split; [unfold u16; lia|exact Hc2].
  Qed.

  Definition labs_ok (x : Z * list text * list Z) : Prop := Forall nsur (snd (fst x)).

  Lemma dl_loop_ns rec seen :
    (forall link sn s, CI s -> dp labs_ok (rec link [] sn s)) ->
    forall fuel off labels s, Forall nsur labels -> CI s -> dp labs_ok (dl_loop data rec fuel off labels seen s).
  Proof.
    intro Hrec. induction fuel as [|f IHf]; intros off labels s Hl Hc; [exact Hc|].
    rewrite dl_loop_S.
    destruct (negb (off <? dlen data)); [exact Hc|].
    apply (dp_bind (fun b => 0 <= b < 256)); [apply byte_at_dp; exact Hc|]. intros len s1 _ Hc1.
    destruct (len =? 0); [cbn [ret dp]; split; [exact Hl|exact Hc1]|].
    destruct (len <? 64).
    { cbv zeta. apply IHf; [|exact Hc1]. apply Forall_app. split; [exact Hl|].
      constructor; [apply decode_replace_nsur|constructor]. }
    destruct (len <? 192); [exact Hc1|].
    apply (dp_bind (fun b => 0 <= b < 256)); [apply byte_at_dp; exact Hc1|]. intros link_data s2 _ Hc2.
    cbv zeta. set (link := Z.land len 63 * 256 + link_data).
    destruct (link >? dlen data); [exact Hc2|].
    destruct (link =? off); [exact Hc2|].
    destruct (existsb (Z.eqb link) seen); [exact Hc2|].
    rewrite mbind_get_cache.
    apply (dp_bind (fun r : list text * list Z => Forall nsur (fst r))).
    - assert (Hmiss : dp (fun r : list text * list Z => Forall nsur (fst r))
         ((if Z.of_nat (length seen) >=? C_MAX_DNS_LABELS
           then raise IncomingDecodeError
           else
            x <- rec link [] (seen ++ [link]);;
            (let '(_, linked, seen'') := x in
              c' <- get_cache;; _ <- set_cache (d_set Z.eqb c' link linked);; ret (linked, seen''))) s2)).
      { destruct (Z.of_nat (length seen) >=? C_MAX_DNS_LABELS); [exact Hc2|].
        apply (dp_bind labs_ok); [apply Hrec; exact Hc2|].
        intros [[o1 linked] seen''] s3 Hx Hc3. unfold labs_ok in Hx. cbn [fst snd] in Hx.
        rewrite mbind_get_cache, mbind_set_cache. cbn [ret dp fst]. split; [exact Hx|].
        intros k ls Hin. cbn [d_cache] in Hin. apply zd_set_In in Hin as [Hin| ->]; [exact (Hc3 k ls Hin)|exact Hx]. }
      destruct (cache_get_labels (d_cache s2) link) as [[|l0 ls]|] eqn:Ec.
      + exact Hmiss.
      + cbn [ret dp fst]. split; [|exact Hc2]. unfold cache_get_labels in Ec. apply zd_get_In in Ec. exact (Hc2 _ _ Ec).
      + exact Hmiss.
    - intros [linked seen2] s3 Hx Hc3. cbn [fst] in Hx. cbv zeta.
      destruct (Z.of_nat (length (labels ++ linked)) >? C_MAX_DNS_LABELS); [exact Hc3|].
      cbn [ret dp]. split; [|exact Hc3]. unfold labs_ok. cbn [fst snd]. apply Forall_app. split; assumption.
  Qed.

  Lemma decode_labels_ns : forall hops off labels seen s,
    Forall nsur labels -> CI s -> dp labs_ok (decode_labels data hops off labels seen s).
  Proof.
    induction hops as [|h IHh]; intros off labels seen s Hl Hc; [exact Hc|].
    rewrite decode_labels_S. apply dl_loop_ns; [|exact Hl|exact Hc].
    intros link sn s' Hc'. apply IHh; [constructor|exact Hc'].
  Qed.

  Variable frames : nat.

  Lemma read_name_dp s : CI s -> dp name_soft (read_name data frames s).
  Proof.
    intro Hc. unfold read_name. rewrite mbind_get_off.
    apply (dp_bind labs_ok); [apply decode_labels_ns; [constructor|exact Hc]|].
    intros [[off' labels] seen'] s1 Hx Hc1. unfold labs_ok in Hx. cbn [fst snd] in Hx.
    rewrite mbind_set_off, mbind_get_cache, mbind_set_cache. cbn [d_cache d_off].
    assert (Hc2 : CI {| d_off := off'; d_cache := d_set Z.eqb (d_cache s1) (d_off s) labels |}).
    { intros k ls Hin. cbn [d_cache] in Hin. apply zd_set_In in Hin as [Hin| ->]; [exact (Hc1 k ls Hin)|exact Hx]. }
    destruct (Z.of_nat (length (join_labels labels ++ [46])) >? C_MAX_NAME_LENGTH) eqn:El; [exact Hc2|].
    cbn [ret dp]. split; [|exact Hc2]. split.
    - apply nsur_app. split; [apply join_labels_nsur; exact Hx|repeat constructor].
    - unfold Names.len. unfold C_MAX_NAME_LENGTH in El. lia.
  Qed.

  Variable now : Z.

  Lemma read_questions_soft : forall n acc s, Forall q_soft acc -> CI s ->
    Forall q_soft (fst (fst (read_questions data now frames n acc s))).
  Proof.
    induction n as [|n IHn]; intros acc s Hacc Hc; [exact Hacc|].
    cbn [read_questions].
    match goal with |- Forall _ (fst (fst (match ?X with DOk _ _ => _ | DErr _ _ => _ end))) =>
      assert (Hq : dp q_soft X) end.
    { apply (dp_bind name_soft); [apply read_name_dp; exact Hc|]. intros name s1 Hname Hc1.
      rewrite mbind_get_off, mbind_set_off.
      apply (dp_bind u16); [apply short_at_dp; exact Hc1|]. intros ty s2 Hty Hc2.
      apply (dp_bind u16); [apply short_at_dp; exact Hc2|]. intros cl s3 _ Hc3.
      cbn [ret dp]. split; [|exact Hc3]. split; [exact Hname|exact Hty]. }
    match goal with |- Forall _ (fst (fst (match ?X with DOk _ _ => _ | DErr _ _ => _ end))) =>
      destruct X as [q s1|e s1] end.
    - destruct Hq as [Hq Hc1]. apply IHn; [|exact Hc1]. apply Forall_app. split; [exact Hacc|constructor; [exact Hq|constructor]].
    - exact Hacc.
  Qed.
End Dec.

(* ---- the three facts about parse ---- *)
Theorem parse_questions_soft : forall data now scope frames, Forall (fun b => 0 <= b < 256) data ->
  Forall q_soft (m_questions (parse data now scope frames)).
Proof.
  intros data now scope frames Hb. unfold parse. cbv zeta.
  assert (C0 : CI {| d_off := 0; d_cache := [] |}) by (intros k ls []).
  match goal with |- context [match ?X with DOk _ _ => _ | DErr _ _ => _ end] =>
    assert (Hh : dp (fun _ => True) X) end.
  { apply (dp_bind u16); [apply short_at_dp; assumption|]. intros id s1 _ C1.
    apply (dp_bind u16); [apply short_at_dp; assumption|]. intros fl s2 _ C2.
    apply (dp_bind u16); [apply short_at_dp; assumption|]. intros nq s3 _ C3.
    apply (dp_bind u16); [apply short_at_dp; assumption|]. intros na s4 _ C4.
    apply (dp_bind u16); [apply short_at_dp; assumption|]. intros nau s5 _ C5.
    apply (dp_bind u16); [apply short_at_dp; assumption|]. intros nad s6 _ C6.
    rewrite mbind_set_off. cbn [ret dp]. split; [exact I|exact C6]. }
  match type of Hh with dp _ ?X => destruct X as [[[[[[id fl] nq] na] nau] nad] s1|e0 s1] end;
    [|cbn [m_questions]; constructor].
  destruct Hh as [_ C1].
  pose proof (read_questions_soft data Hb frames now (Z.to_nat nq) [] s1 (Forall_nil _) C1) as Hq.
  destruct (read_questions data now frames (Z.to_nat nq) [] s1) as [[qs qe] s2]. cbn [fst] in Hq.
  destruct (escapes qe); [exact Hq|].
  destruct (read_others data now scope frames (Z.to_nat (na + nau + nad)) [] s2) as [[ans ae] s3]. exact Hq.
Qed.

Theorem parse_id_u16 : forall data now scope frames, Forall (fun b => 0 <= b < 256) data ->
  u16 (m_id (parse data now scope frames)).
Proof.
  intros data now scope frames Hb.
  assert (C0 : CI {| d_off := 0; d_cache := [] |}) by (intros k ls []).
  pose proof (short_at_dp data Hb 0 _ C0) as H0.
  unfold parse. cbv zeta. unfold mbind at 1.
  destruct (short_at data 0 {| d_off := 0; d_cache := [] |}) as [id s1|e s1] eqn:E0.
  - destruct H0 as [H0 _].
    match goal with |- context [match ?X with DOk _ _ => _ | DErr _ _ => _ end] => destruct X as [[[[[[id' fl] nq] na] nau] nad] s2|e0 s2] eqn:E end.
    + assert (id' = id).
      { unfold mbind in E.
        repeat match type of E with
        | match ?Y with DOk _ _ => _ | DErr _ _ => _ end = _ => destruct Y; [|discriminate]
        end.
        cbn in E. inversion E. reflexivity. }
      subst id'.
      destruct (read_questions data now frames (Z.to_nat nq) [] s2) as [[qs qe] s3].
      destruct (escapes qe); [exact H0|].
      destruct (read_others data now scope frames (Z.to_nat (na + nau + nad)) [] s3) as [[ans ae] s4]. exact H0.
    + cbn [m_id]. exact H0.
  - cbn [m_id]. unfold u16. lia.
Qed.

Theorem escaped_not_caught : forall data now scope frames e,
  m_escaped (parse data now scope frames) = Some e -> decode_catches e = false.
Proof.
  intros data now scope frames e H.
  destruct (parse_Q data now scope frames (fun _ => True) I I) as [_ Hesc].
  - intros off s. destruct (decode_labels data frames off [] [] s); exact I.
  - intros endo acc s. destruct (read_bitmap_loop data (S (length data)) endo acc s); exact I.
  - exact (proj2 (Hesc e H)).
Qed.

Print Assumptions parse_questions_soft.
Print Assumptions parse_id_u16.
Print Assumptions escaped_not_caught.
