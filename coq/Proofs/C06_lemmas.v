(* C06 helpers: list facts, the PTR floor, the per-record loop of ingest, flush marking and batched
   adds, all expressed on the flat view of the cache. *)
From ZC Require Import Model.Base Model.PyRec Model.Dict Model.Re Model.Cache Model.Ingest Gen.Const Gen.DnsPure
  Spec.CacheSpec Spec.IngestSpec.
From ZC Require Import Proofs.C20_identity Proofs.C05_index Proofs.C05_cache.

(* ------------------------------------------------------------------ *)
(* plain list facts *)

Lemma find_map_ {A B} (p : B -> bool) (f : A -> B) l :
  find p (map f l) = option_map f (find (fun x => p (f x)) l).
Proof.
  induction l as [|x l IH]; [reflexivity|]. simpl. destruct (p (f x)); [reflexivity|exact IH].
Qed.

Lemma existsb_map_ {A B} (p : B -> bool) (f : A -> B) l :
  existsb p (map f l) = existsb (fun x => p (f x)) l.
Proof. induction l as [|x l IH]; [reflexivity|]. simpl. rewrite IH. reflexivity. Qed.

Lemma existsb_filter_ {A} (p q : A -> bool) l :
  existsb p (filter q l) = existsb (fun x => q x && p x) l.
Proof.
  induction l as [|x l IH]; [reflexivity|]. simpl. destruct (q x); simpl; rewrite IH; reflexivity.
Qed.

Lemma existsb_find_ {A} (p : A -> bool) l :
  existsb p l = match find p l with Some _ => true | None => false end.
Proof. induction l as [|x l IH]; [reflexivity|]. simpl. destruct (p x); [reflexivity|exact IH]. Qed.

Lemma find_filter_fuse {A} (p q : A -> bool) l :
  find p (filter q l) = find (fun x => q x && p x) l.
Proof.
  induction l as [|x l IH]; [reflexivity|]. simpl.
  destruct (q x); simpl; [destruct (p x); [reflexivity|exact IH]|exact IH].
Qed.

Lemma existsb_ext_in_ {A} (p q : A -> bool) l :
  (forall x, In x l -> p x = q x) -> existsb p l = existsb q l.
Proof.
  induction l as [|x l IH]; intro H; [reflexivity|]. simpl.
  rewrite (H x (or_introl eq_refl)). rewrite IH; [reflexivity|].
  intros y Hy. apply H. right; exact Hy.
Qed.

Lemma find_ext_in_ {A} (p q : A -> bool) l :
  (forall x, In x l -> p x = q x) -> find p l = find q l.
Proof.
  induction l as [|x l IH]; intro H; [reflexivity|]. simpl.
  rewrite (H x (or_introl eq_refl)). rewrite IH; [reflexivity|].
  intros y Hy. apply H. right; exact Hy.
Qed.

Lemma existsb_false_ {A} (p : A -> bool) l :
  existsb p l = false <-> forall x, In x l -> p x = false.
Proof.
  split.
  - intros H x Hx. destruct (p x) eqn:E; [|reflexivity].
    assert (C : existsb p l = true) by (apply existsb_exists; exists x; split; assumption).
    congruence.
  - intro H. destruct (existsb p l) eqn:E; [|reflexivity].
    apply existsb_exists in E as [x [Hx Px]]. rewrite (H x Hx) in Px. discriminate.
Qed.

Lemma find_not_none {A} (p : A -> bool) l x :
  In x l -> p x = true -> exists y, find p l = Some y.
Proof.
  intros Hx Px. destruct (find p l) as [y|] eqn:E; [exists y; reflexivity|].
  pose proof (find_none p l E x Hx) as C. congruence.
Qed.

Lemma text_eqb_sym a b : text_eqb a b = text_eqb b a.
Proof.
  destruct (text_eqb a b) eqn:E1, (text_eqb b a) eqn:E2; try reflexivity.
  - apply text_eqb_eq in E1. subst b. rewrite text_eqb_refl in E2. discriminate.
  - apply text_eqb_eq in E2. subst b. rewrite text_eqb_refl in E1. discriminate.
Qed.

(* ------------------------------------------------------------------ *)
(* identity facts *)

Lemma gen_eq_congr_l y r a : gen_eq y r = true -> gen_eq y a = gen_eq r a.
Proof. intro H. apply eq_congr_l. apply eq_iff_ident. exact H. Qed.

Lemma gen_eq_congr_r a y r : gen_eq y r = true -> gen_eq a y = gen_eq a r.
Proof. intro H. rewrite (eq_sym_ a y), (eq_sym_ a r). apply gen_eq_congr_l. exact H. Qed.

Lemma gen_eq_type x y : gen_eq x y = true -> p_type_ x = p_type_ y.
Proof.
  intro H. apply eq_iff_ident in H. unfold ident_of in H.
  destruct (p_kind x), (p_kind y); inversion H; auto.
Qed.

Lemma find_unique_di l x r :
  distinct_idents l -> In x l -> gen_eq x r = true -> find (fun y => gen_eq y r) l = Some x.
Proof.
  intros Hd Hx E. destruct (find_not_none (fun y => gen_eq y r) l x Hx E) as [y Fy].
  rewrite Fy. apply find_some in Fy as [Hy Ey]. f_equal. symmetry.
  apply (di_unique l x y Hd Hx Hy). rewrite (gen_eq_congr_r x y r Ey). exact E.
Qed.

Lemma existsb_self l x (P : pyrec -> bool) :
  distinct_idents l -> In x l -> existsb (fun r => P r && gen_eq x r) l = P x.
Proof.
  intros Hd Hx. destruct (P x) eqn:Px.
  - apply existsb_exists. exists x. split; [exact Hx|]. rewrite Px, eq_refl_. reflexivity.
  - apply existsb_false_. intros r Hr. destruct (gen_eq x r) eqn:E; [|apply andb_false_r].
    rewrite <- (di_unique l x r Hd Hx Hr E), Px. reflexivity.
Qed.

(* ------------------------------------------------------------------ *)
(* cache membership on the flat view *)

Lemma in_cache_flat c r : Inv c -> in_cache c r = existsb (fun x => gen_eq x r) (flat c).
Proof.
  intro Hinv. destruct (existsb (fun x => gen_eq x r) (flat c)) eqn:E.
  - apply has_in_cache; [exact Hinv|]. apply existsb_exists in E. exact E.
  - destruct (in_cache c r) eqn:I; [|reflexivity]. apply in_cache_has in I. destruct I as [x [Hx Ex]].
    assert (C : existsb (fun x => gen_eq x r) (flat c) = true).
    { apply existsb_exists. exists x. split; assumption. }
    congruence.
Qed.

Lemma in_cache_congr c y r : Inv c -> gen_eq y r = true -> in_cache c y = in_cache c r.
Proof.
  intros Hinv E. rewrite !in_cache_flat by exact Hinv. apply existsb_ext_in_.
  intros x _. apply gen_eq_congr_r. exact E.
Qed.

Lemma in_cache_true_iff c r : Inv c -> (in_cache c r = true <-> has c r).
Proof. intro Hinv. split; [apply in_cache_has|apply has_in_cache; exact Hinv]. Qed.

Lemma in_cache_false_not c r x : Inv c -> in_cache c r = false -> In x (flat c) -> gen_eq x r = false.
Proof.
  intros Hinv H Hx. rewrite in_cache_flat in H by exact Hinv.
  apply (proj1 (existsb_false_ _ _) H x Hx).
Qed.

Lemma get_unique_in c x : Inv c -> In x (flat c) -> async_get_unique c x = Some x.
Proof.
  intros Hinv Hx. rewrite get_unique_flat by exact Hinv.
  apply find_unique_di; [apply di_flat; exact Hinv|exact Hx|apply eq_refl_].
Qed.

Lemma get_unique_eq c x r : Inv c -> In x (flat c) -> gen_eq x r = true -> async_get_unique c r = Some x.
Proof.
  intros Hinv Hx E. rewrite get_unique_flat by exact Hinv.
  apply find_unique_di; [apply di_flat; exact Hinv|exact Hx|exact E].
Qed.

(* ------------------------------------------------------------------ *)
(* the PTR floor *)

Lemma ident_floor r : ident_of (floorr r) = ident_of r.
Proof.
  unfold floorr, apply_ptr_floor.
  match goal with |- context [if ?b then _ else _] => destruct b end; reflexivity.
Qed.

Lemma gen_eq_floor_l r y : gen_eq (floorr r) y = gen_eq r y.
Proof. apply eq_congr_l. apply ident_floor. Qed.
Lemma gen_eq_floor_r r y : gen_eq y (floorr r) = gen_eq y r.
Proof. rewrite eq_sym_, gen_eq_floor_l. apply eq_sym_. Qed.
Lemma gen_eq_floor_self r : gen_eq r (floorr r) = true.
Proof. rewrite gen_eq_floor_r. apply eq_refl_. Qed.

Lemma floor_created r : p_created (floorr r) = p_created r.
Proof.
  unfold floorr, apply_ptr_floor.
  match goal with |- context [if ?b then _ else _] => destruct b end; reflexivity.
Qed.
Lemma floor_name r : p_name (floorr r) = p_name r.
Proof.
  unfold floorr, apply_ptr_floor.
  match goal with |- context [if ?b then _ else _] => destruct b end; reflexivity.
Qed.
Lemma floor_type r : p_type_ (floorr r) = p_type_ r.
Proof.
  unfold floorr, apply_ptr_floor.
  match goal with |- context [if ?b then _ else _] => destruct b end; reflexivity.
Qed.
Lemma floor_class r : DNSEntry_class_ (floorr r) = DNSEntry_class_ r.
Proof.
  unfold floorr, apply_ptr_floor.
  match goal with |- context [if ?b then _ else _] => destruct b end; reflexivity.
Qed.
Lemma floor_unique r : DNSEntry_unique (floorr r) = DNSEntry_unique r.
Proof.
  unfold floorr, apply_ptr_floor.
  match goal with |- context [if ?b then _ else _] => destruct b end; reflexivity.
Qed.

Lemma floor_ttl0 r : (p_ttl (floorr r) =? 0) = (p_ttl r =? 0).
Proof.
  unfold floorr, apply_ptr_floor. destruct (p_ttl r =? 0) eqn:E; cbn [negb andb]; [exact E|].
  match goal with |- context [if ?b then _ else _] => destruct b end; [reflexivity|exact E].
Qed.

Lemma floor_ttl_nonneg r : 0 <= p_ttl r -> 0 <= p_ttl (floorr r).
Proof.
  intro H. unfold floorr, apply_ptr_floor.
  match goal with |- context [if ?b then _ else _] => destruct b end; [cbn; unfold C_DNS_PTR_MIN_TTL; lia|exact H].
Qed.

Lemma floor_expired now r :
  p_created r = now -> 0 <= p_ttl r -> DNSRecord_is_expired (floorr r) now = (p_ttl r =? 0).
Proof.
  intros Hc Ht. unfold DNSRecord_is_expired, DNSRecord_created, DNSRecord_ttl, C_EXPIRE_FULL_TIME_MS.
  rewrite floor_created, Hc. rewrite <- (floor_ttl0 r). pose proof (floor_ttl_nonneg r Ht) as Hn.
  destruct (p_ttl (floorr r) =? 0) eqn:E.
  - apply Z.eqb_eq in E. rewrite E. apply Z.leb_le. lia.
  - apply Z.eqb_neq in E. apply Z.leb_gt. lia.
Qed.

Lemma in_cache_floor c r : Inv c -> in_cache c (floorr r) = in_cache c r.
Proof. intro Hinv. apply in_cache_congr; [exact Hinv|]. rewrite gen_eq_floor_l. apply eq_refl_. Qed.

(* ------------------------------------------------------------------ *)
(* spec vocabulary *)

Lemma last_nonzero_snoc done r0 x :
  last_nonzero (done ++ [r0]) x
  = if gen_eq r0 x && negb (p_ttl r0 =? 0) then Some r0 else last_nonzero done x.
Proof. unfold last_nonzero. rewrite rev_app_distr. reflexivity. Qed.

Lemma last_nonzero_congr answers y r : gen_eq y r = true -> last_nonzero answers y = last_nonzero answers r.
Proof.
  intro E. unfold last_nonzero. apply find_ext_. intro a. rewrite (gen_eq_congr_r a y r E). reflexivity.
Qed.

Lemma last_nonzero_some answers x a :
  last_nonzero answers x = Some a -> In a answers /\ gen_eq a x = true /\ p_ttl a <> 0.
Proof.
  unfold last_nonzero. intro H. apply find_some in H as [H1 H2]. apply in_rev in H1.
  apply andb_true_iff in H2 as [H2 H3]. apply negb_true_iff, Z.eqb_neq in H3. auto.
Qed.

Lemma last_nonzero_exists answers r x :
  In r answers -> gen_eq r x = true -> p_ttl r <> 0 -> exists a, last_nonzero answers x = Some a.
Proof.
  intros Hr E T. unfold last_nonzero.
  apply (find_not_none _ (rev answers) r); [apply in_rev; rewrite rev_involutive; exact Hr|].
  rewrite E. apply Z.eqb_neq in T. rewrite T. reflexivity.
Qed.

Lemma last_nonzero_none_unlisted answers x : listed answers x = false -> last_nonzero answers x = None.
Proof.
  intro H. destruct (last_nonzero answers x) as [a|] eqn:E; [|reflexivity].
  apply last_nonzero_some in E as [Ha [Ea _]]. unfold listed in H.
  rewrite (proj1 (existsb_false_ _ _) H a Ha) in Ea. discriminate.
Qed.

Lemma wf_app now l1 l2 : wf_answers now (l1 ++ l2) -> wf_answers now l1 /\ wf_answers now l2.
Proof.
  intro H. split; intros r Hr; apply H; apply in_or_app; [left|right]; exact Hr.
Qed.

(* ------------------------------------------------------------------ *)
(* projections of one loop step *)

Lemma ingest_one_cache now a r0 :
  a_cache (ingest_one now a r0)
  = if negb (DNSRecord_is_expired (floorr r0) now) then
      match async_get_unique (a_cache a) (floorr r0) with
      | Some e => cache_set_lifetime (a_cache a) e (p_created (floorr r0)) (p_ttl (floorr r0))
      | None => a_cache a
      end
    else a_cache a.
Proof.
  unfold ingest_one, floorr. cbv zeta.
  destruct (negb (DNSRecord_is_expired (apply_ptr_floor r0) now));
    destruct (async_get_unique (a_cache a) (apply_ptr_floor r0)); reflexivity.
Qed.

Lemma ingest_one_updates now a r0 :
  a_updates (ingest_one now a r0)
  = match async_get_unique (a_cache a) (floorr r0) with
    | Some e => a_updates a ++ [{| u_new := floorr r0; u_old := Some e |}]
    | None => if negb (DNSRecord_is_expired (floorr r0) now)
              then a_updates a ++ [{| u_new := floorr r0; u_old := None |}] else a_updates a
    end.
Proof.
  unfold ingest_one, floorr. cbv zeta.
  destruct (negb (DNSRecord_is_expired (apply_ptr_floor r0) now));
    destruct (async_get_unique (a_cache a) (apply_ptr_floor r0)); reflexivity.
Qed.

Definition isaddr (r : pyrec) : bool := is_address_type (p_type_ r).

Lemma ingest_one_addr now a r0 :
  a_address_adds (ingest_one now a r0)
  = match async_get_unique (a_cache a) (floorr r0) with
    | Some e => a_address_adds a
    | None => if negb (DNSRecord_is_expired (floorr r0) now) && isaddr (floorr r0)
              then a_address_adds a ++ [floorr r0] else a_address_adds a
    end.
Proof.
  unfold ingest_one, floorr, isaddr. cbv zeta.
  destruct (negb (DNSRecord_is_expired (apply_ptr_floor r0) now));
    destruct (async_get_unique (a_cache a) (apply_ptr_floor r0)); try reflexivity;
    cbn [a_address_adds andb]; destruct (is_address_type (p_type_ (apply_ptr_floor r0))); reflexivity.
Qed.

Lemma ingest_one_other now a r0 :
  a_other_adds (ingest_one now a r0)
  = match async_get_unique (a_cache a) (floorr r0) with
    | Some e => a_other_adds a
    | None => if negb (DNSRecord_is_expired (floorr r0) now) && negb (isaddr (floorr r0))
              then a_other_adds a ++ [floorr r0] else a_other_adds a
    end.
Proof.
  unfold ingest_one, floorr, isaddr. cbv zeta.
  destruct (negb (DNSRecord_is_expired (apply_ptr_floor r0) now));
    destruct (async_get_unique (a_cache a) (apply_ptr_floor r0)); try reflexivity;
    cbn [a_other_adds andb]; destruct (is_address_type (p_type_ (apply_ptr_floor r0))); reflexivity.
Qed.

Lemma ingest_one_removes now a r0 :
  a_removes (ingest_one now a r0)
  = match async_get_unique (a_cache a) (floorr r0) with
    | Some e => if negb (DNSRecord_is_expired (floorr r0) now) then a_removes a
                else set_add (a_removes a) (floorr r0)
    | None => a_removes a
    end.
Proof.
  unfold ingest_one, floorr. cbv zeta.
  destruct (negb (DNSRecord_is_expired (apply_ptr_floor r0) now));
    destruct (async_get_unique (a_cache a) (apply_ptr_floor r0)); reflexivity.
Qed.

Definition triple (r : pyrec) : text * Z * Z := (p_name r, p_type_ r, DNSEntry_class_ r).

Lemma ingest_one_unique now a r0 :
  a_unique (ingest_one now a r0)
  = if DNSEntry_unique (floorr r0) then a_unique a ++ [triple (floorr r0)] else a_unique a.
Proof.
  unfold ingest_one, floorr, triple. cbv zeta.
  destruct (negb (DNSRecord_is_expired (apply_ptr_floor r0) now));
    destruct (async_get_unique (a_cache a) (apply_ptr_floor r0)); reflexivity.
Qed.

(* ------------------------------------------------------------------ *)
(* the loop *)

Definition acc0 (c : cache) : ingest_acc :=
  {| a_cache := c; a_updates := []; a_address_adds := []; a_other_adds := []; a_removes := []; a_unique := [] |}.

Definition loop (now : Z) (c : cache) (l : list pyrec) : ingest_acc := fold_left (ingest_one now) l (acc0 c).

Lemma loop_snoc now c l r : loop now c (l ++ [r]) = ingest_one now (loop now c l) r.
Proof. unfold loop. rewrite fold_left_app. reflexivity. Qed.

(* what the records processed so far have done to the lifetime of a cached record *)
Definition refresh (now : Z) (done : list pyrec) (x : pyrec) : pyrec :=
  match last_nonzero done x with
  | Some a => set_lifetime x now (p_ttl (floorr a))
  | None => x
  end.

Lemma gen_eq_refresh_l now done x y : gen_eq (refresh now done x) y = gen_eq x y.
Proof. unfold refresh. destruct (last_nonzero done x); [apply gen_eq_sl_l|reflexivity]. Qed.

Lemma refresh_snoc now done r0 x :
  refresh now (done ++ [r0]) x
  = if gen_eq r0 x && negb (p_ttl r0 =? 0) then set_lifetime x now (p_ttl (floorr r0)) else refresh now done x.
Proof. unfold refresh. rewrite last_nonzero_snoc. destruct (_ && _); reflexivity. Qed.

Definition isnew (c : cache) (r : pyrec) : bool := negb (p_ttl r =? 0) && negb (in_cache c r).
Definition news (c : cache) (l : list pyrec) : list pyrec := filter (isnew c) (map floorr l).

Lemma news_snoc c l r : news c (l ++ [r]) = news c l ++ (if isnew c (floorr r) then [floorr r] else []).
Proof. unfold news. rewrite map_app, filter_app. reflexivity. Qed.

Lemma reported_snoc now c l r :
  reported now c (l ++ [r])
  = reported now c l ++ (if negb (p_ttl (floorr r) =? 0) || in_cache c (floorr r) then [floorr r] else []).
Proof. unfold reported. rewrite map_app, filter_app. reflexivity. Qed.

Section Loop.
  Variables (now : Z) (c : cache).
  Hypothesis HInv : Inv c.

  Lemma loop_cache : forall done, wf_answers now done ->
    Inv (a_cache (loop now c done)) /\
    flat (a_cache (loop now c done)) = map (refresh now done) (flat c).
  Proof.
    induction done as [|r0 done IH] using rev_ind; intro Hwf.
    - split; [exact HInv|]. cbn. symmetry. rewrite <- (map_id (flat c)) at 2. apply map_ext. reflexivity.
    - apply wf_app in Hwf as [Hwf1 Hwf2]. destruct (IH Hwf1) as [Hia Hfa]. clear IH.
      destruct (Hwf2 r0 (or_introl eq_refl)) as [Hcr [[Ht0 _] _]].
      rewrite loop_snoc, ingest_one_cache. rewrite (floor_expired now r0 Hcr Ht0).
      set (a := loop now c done) in *.
      destruct (p_ttl r0 =? 0) eqn:T0; cbn [negb].
      + split; [exact Hia|]. rewrite Hfa. apply map_ext. intro x.
        rewrite refresh_snoc, T0. cbn [negb]. rewrite andb_false_r. reflexivity.
      + destruct (async_get_unique (a_cache a) (floorr r0)) as [e|] eqn:G.
        * split; [apply cache_set_lifetime_inv; exact Hia|].
          rewrite set_lifetime_flat by exact Hia. rewrite Hfa, map_map. apply map_ext. intro x.
          rewrite get_unique_flat in G by exact Hia. apply find_some in G as [_ Ee].
          rewrite gen_eq_floor_r in Ee.
          unfold upd. rewrite gen_eq_refresh_l, (gen_eq_congr_r x e r0 Ee).
          rewrite refresh_snoc, T0. cbn [negb]. rewrite andb_true_r.
          rewrite (eq_sym_ r0 x). destruct (gen_eq x r0).
          -- rewrite floor_created, Hcr. unfold refresh. destruct (last_nonzero done x); reflexivity.
          -- reflexivity.
        * split; [exact Hia|]. rewrite Hfa. apply map_ext_in. intros x Hx. rewrite refresh_snoc.
          rewrite get_unique_flat in G by exact Hia. rewrite Hfa in G.
          pose proof (find_none _ _ G (refresh now done x) (in_map _ _ _ Hx)) as N. cbv beta in N.
          rewrite gen_eq_refresh_l, gen_eq_floor_r, eq_sym_ in N. rewrite N. reflexivity.
  Qed.

  (* the identity set does not change during the loop *)
  Lemma loop_lookup done rec : wf_answers now done ->
    async_get_unique (a_cache (loop now c done)) rec
    = option_map (refresh now done) (find (fun x => gen_eq x rec) (flat c)).
  Proof.
    intro Hwf. destruct (loop_cache done Hwf) as [Hia Hfa].
    rewrite get_unique_flat by exact Hia. rewrite Hfa, find_map_. f_equal.
    apply find_ext_. intro x. apply gen_eq_refresh_l.
  Qed.

  Lemma loop_found done rec : wf_answers now done ->
    match async_get_unique (a_cache (loop now c done)) rec with Some _ => true | None => false end
    = in_cache c rec.
  Proof.
    intro Hwf. rewrite loop_lookup by exact Hwf. rewrite in_cache_flat by exact HInv.
    rewrite existsb_find_. destruct (find (fun x => gen_eq x rec) (flat c)); reflexivity.
  Qed.

  Lemma loop_found_some done rec e : wf_answers now done ->
    async_get_unique (a_cache (loop now c done)) rec = Some e ->
    in_cache c rec = true /\ gen_eq e rec = true /\ exists y, In y (flat c) /\ gen_eq y e = true.
  Proof.
    intros Hwf G. pose proof (loop_found done rec Hwf) as Fd. rewrite G in Fd.
    split; [symmetry; exact Fd|].
    rewrite loop_lookup in G by exact Hwf.
    destruct (find (fun x => gen_eq x rec) (flat c)) as [y|] eqn:Fy; [|discriminate].
    cbn in G. inversion G; subst e. apply find_some in Fy as [Hy Ey].
    split; [rewrite gen_eq_refresh_l; exact Ey|].
    exists y. split; [exact Hy|]. rewrite eq_sym_, gen_eq_refresh_l. apply eq_refl_.
  Qed.

  Lemma loop_found_none done rec : wf_answers now done ->
    async_get_unique (a_cache (loop now c done)) rec = None -> in_cache c rec = false.
  Proof.
    intros Hwf G. pose proof (loop_found done rec Hwf) as Fd. rewrite G in Fd. symmetry; exact Fd.
  Qed.

  Definition updates_ok (us : list update) : Prop :=
    forall u, In u us ->
      (u_old u <> None <-> in_cache c (u_new u) = true) /\
      (forall e, u_old u = Some e ->
         gen_eq e (u_new u) = true /\ exists y, In y (flat c) /\ gen_eq y e = true).

  Lemma loop_updates : forall done, wf_answers now done ->
    map u_new (a_updates (loop now c done)) = reported now c done /\
    updates_ok (a_updates (loop now c done)).
  Proof.
    induction done as [|r0 done IH] using rev_ind; intro Hwf.
    - split; [reflexivity|]. intros u [].
    - apply wf_app in Hwf as [Hwf1 Hwf2]. destruct (IH Hwf1) as [Hm Hok]. clear IH.
      destruct (Hwf2 r0 (or_introl eq_refl)) as [Hcr [[Ht0 _] _]].
      rewrite loop_snoc, ingest_one_updates, reported_snoc.
      rewrite (floor_expired now r0 Hcr Ht0), floor_ttl0.
      destruct (async_get_unique (a_cache (loop now c done)) (floorr r0)) as [e|] eqn:G.
      + destruct (loop_found_some done _ e Hwf1 G) as [Hin [Ee Hy]].
        rewrite Hin, orb_true_r. split.
        * rewrite map_app, Hm. reflexivity.
        * intros u Hu. apply in_app_or in Hu as [Hu|[Hu|[]]]; [apply Hok; exact Hu|]. subst u. cbn. split.
          -- split; [intros _; exact Hin|intros _; discriminate].
          -- intros e' E'. inversion E'; subst e'. split; [exact Ee|exact Hy].
      + pose proof (loop_found_none done _ Hwf1 G) as Hin. rewrite Hin, orb_false_r.
        destruct (negb (p_ttl r0 =? 0)).
        * split; [rewrite map_app, Hm; reflexivity|].
          intros u Hu. apply in_app_or in Hu as [Hu|[Hu|[]]]; [apply Hok; exact Hu|]. subst u. cbn. split.
          -- split; [intro C; exfalso; apply C; reflexivity|intro C; congruence].
          -- intros e' E'. discriminate.
        * split; [rewrite app_nil_r; exact Hm|exact Hok].
  Qed.

  Lemma loop_adds : forall done, wf_answers now done ->
    a_address_adds (loop now c done) = filter isaddr (news c done) /\
    a_other_adds (loop now c done) = filter (fun r => negb (isaddr r)) (news c done).
  Proof.
    induction done as [|r0 done IH] using rev_ind; intro Hwf.
    - split; reflexivity.
    - apply wf_app in Hwf as [Hwf1 Hwf2]. destruct (IH Hwf1) as [Ha Ho]. clear IH.
      destruct (Hwf2 r0 (or_introl eq_refl)) as [Hcr [[Ht0 _] _]].
      rewrite loop_snoc, ingest_one_addr, ingest_one_other, news_snoc, !filter_app.
      rewrite (floor_expired now r0 Hcr Ht0). unfold isnew. rewrite floor_ttl0.
      destruct (async_get_unique (a_cache (loop now c done)) (floorr r0)) as [e|] eqn:G.
      + destruct (loop_found_some done _ e Hwf1 G) as [Hin _]. rewrite Hin, andb_false_r. cbn [filter].
        rewrite !app_nil_r. split; assumption.
      + pose proof (loop_found_none done _ Hwf1 G) as Hin. rewrite Hin. cbn [negb]. rewrite andb_true_r.
        destruct (negb (p_ttl r0 =? 0)); cbn [andb filter].
        * destruct (isaddr (floorr r0)); cbn [negb]; rewrite ?app_nil_r, Ha, Ho; split; reflexivity.
        * rewrite !app_nil_r. split; assumption.
  Qed.

  Lemma set_add_in s r x : In x (set_add s r) -> In x s \/ x = r.
  Proof.
    unfold set_add. destruct (existsb (fun y => gen_eq y r) s); [left; assumption|].
    intro H. apply in_app_or in H as [H|[H|[]]]; [left; exact H|right; symmetry; exact H].
  Qed.

  Lemma set_add_mono (p : pyrec -> bool) s r : existsb p s = true -> existsb p (set_add s r) = true.
  Proof.
    unfold set_add. destruct (existsb (fun y => gen_eq y r) s); [tauto|].
    intro H. rewrite existsb_app, H. reflexivity.
  Qed.

  Lemma set_add_self s r g : gen_eq r g = true -> existsb (fun x => gen_eq x g) (set_add s r) = true.
  Proof.
    intro E. unfold set_add. destruct (existsb (fun y => gen_eq y r) s) eqn:X.
    - rewrite <- X. apply existsb_ext_in_. intros x _. symmetry. apply gen_eq_congr_r. exact E.
    - rewrite existsb_app. cbn. rewrite E. rewrite orb_true_r. reflexivity.
  Qed.

  Lemma loop_removes : forall done, wf_answers now done ->
    (forall x, In x (a_removes (loop now c done)) ->
       exists g, In g done /\ gen_eq g x = true /\ p_ttl g = 0 /\ in_cache c g = true) /\
    (forall g, In g done -> p_ttl g = 0 -> in_cache c g = true ->
       existsb (fun x => gen_eq x g) (a_removes (loop now c done)) = true).
  Proof.
    induction done as [|r0 done IH] using rev_ind; intro Hwf.
    - split; [intros x []|intros g []].
    - apply wf_app in Hwf as [Hwf1 Hwf2]. destruct (IH Hwf1) as [H1 H2]. clear IH.
      destruct (Hwf2 r0 (or_introl eq_refl)) as [Hcr [[Ht0 _] _]].
      rewrite loop_snoc, ingest_one_removes. rewrite (floor_expired now r0 Hcr Ht0).
      assert (Mono1 : forall x, In x (a_removes (loop now c done)) ->
                exists g, In g (done ++ [r0]) /\ gen_eq g x = true /\ p_ttl g = 0 /\ in_cache c g = true).
      { intros x Hx. destruct (H1 x Hx) as [g [Hg Rest]]. exists g. split; [|exact Rest].
        apply in_or_app. left; exact Hg. }
      destruct (async_get_unique (a_cache (loop now c done)) (floorr r0)) as [e|] eqn:G.
      + destruct (loop_found_some done _ e Hwf1 G) as [Hin _]. rewrite in_cache_floor in Hin by exact HInv.
        destruct (p_ttl r0 =? 0) eqn:T0; cbn [negb].
        * apply Z.eqb_eq in T0. split.
          -- intros x Hx. apply set_add_in in Hx as [Hx|Hx]; [apply Mono1; exact Hx|]. subst x.
             exists r0. split; [apply in_or_app; right; left; reflexivity|].
             split; [apply gen_eq_floor_self|]. split; assumption.
          -- intros g Hg Tg Ig. apply in_app_or in Hg as [Hg|[Hg|[]]].
             ++ apply set_add_mono. apply H2; assumption.
             ++ subst g. apply set_add_self. rewrite gen_eq_floor_l. apply eq_refl_.
        * apply Z.eqb_neq in T0. split; [exact Mono1|].
          intros g Hg Tg Ig. apply in_app_or in Hg as [Hg|[Hg|[]]]; [apply H2; assumption|].
          subst g. contradiction.
      + pose proof (loop_found_none done _ Hwf1 G) as Hin. rewrite in_cache_floor in Hin by exact HInv.
        split; [exact Mono1|].
        intros g Hg Tg Ig. apply in_app_or in Hg as [Hg|[Hg|[]]]; [apply H2; assumption|].
        subst g. congruence.
  Qed.

  Lemma loop_unique : forall done,
    a_unique (loop now c done) = map triple (filter DNSEntry_unique (map floorr done)).
  Proof.
    induction done as [|r0 done IH] using rev_ind; [reflexivity|].
    rewrite loop_snoc, ingest_one_unique, map_app, filter_app, map_app, IH. cbn [map filter].
    destruct (DNSEntry_unique (floorr r0)); [reflexivity|]. cbn [map]. rewrite app_nil_r. reflexivity.
  Qed.

  Lemma loop_LI done : LI (loop now c done).
  Proof.
    unfold loop. apply ingest_fold_LI. unfold LI, acc0. cbn.
    split; [exact HInv|]. split; [exact I|]. intros r [].
  Qed.
End Loop.

(* ------------------------------------------------------------------ *)
(* cache-flush marking *)

Definition gcond (now : Z) (answers' : list pyrec) (x : pyrec) : bool :=
  (now - DNSRecord_created x >? C_ONE_SECOND) && negb (existsb (fun a => gen_eq a x) answers').

Definition pu (u : text * Z * Z) (x : pyrec) : bool :=
  let '(name, ty, cl) := u in text_eqb (rkey x) (lower name) && details_match ty cl x.

Definition mk (now : Z) (answers' : list pyrec) (us : list (text * Z * Z)) (x : pyrec) : pyrec :=
  if existsb (fun u => pu u x) us && gcond now answers' x then set_lifetime x now 1 else x.

Lemma gen_eq_mk_l now answers' us x y : gen_eq (mk now answers' us x) y = gen_eq x y.
Proof. unfold mk. destruct (_ && _); [apply gen_eq_sl_l|reflexivity]. Qed.

Lemma gcond_sl now answers' x t : gcond now answers' (set_lifetime x now t) = false.
Proof. unfold gcond, DNSRecord_created. cbn [p_created set_lifetime]. rewrite Z.sub_diag. reflexivity. Qed.

Lemma fold_sl_flat (g : pyrec -> bool) now : forall L c, Inv c ->
  Inv (fold_left (fun c r => if g r then cache_set_lifetime c r now 1 else c) L c) /\
  flat (fold_left (fun c r => if g r then cache_set_lifetime c r now 1 else c) L c)
  = map (fun x => if existsb (fun r => g r && gen_eq x r) L then set_lifetime x now 1 else x) (flat c).
Proof.
  induction L as [|r L IH]; intros c Hinv.
  - split; [exact Hinv|]. cbn. symmetry. rewrite <- (map_id (flat c)) at 2. apply map_ext. reflexivity.
  - cbn [fold_left]. destruct (g r) eqn:G.
    + destruct (IH (cache_set_lifetime c r now 1) (cache_set_lifetime_inv c r now 1 Hinv)) as [I1 F1].
      split; [exact I1|]. rewrite F1, set_lifetime_flat by exact Hinv. rewrite map_map. apply map_ext.
      intro x. cbn [existsb]. rewrite G. cbn [andb]. unfold upd. destruct (gen_eq x r) eqn:E; cbn [orb].
      * destruct (existsb _ L); reflexivity.
      * reflexivity.
    + destruct (IH c Hinv) as [I1 F1]. split; [exact I1|]. rewrite F1. apply map_ext.
      intro x. cbn [existsb]. rewrite G. reflexivity.
Qed.

Lemma mark_one_flat now answers' c u : Inv c ->
  Inv (mark_one now answers' c u) /\
  flat (mark_one now answers' c u)
  = map (fun x => if pu u x && gcond now answers' x then set_lifetime x now 1 else x) (flat c).
Proof.
  intro Hinv. destruct u as [[name ty] cl].
  assert (E : mark_one now answers' c (name, ty, cl)
              = fold_left (fun c r => if gcond now answers' r then cache_set_lifetime c r now 1 else c)
                          (async_all_by_details c name ty cl) c) by reflexivity.
  rewrite E. destruct (fold_sl_flat (gcond now answers') now (async_all_by_details c name ty cl) c Hinv) as [I1 F1].
  split; [exact I1|]. rewrite F1. apply map_ext_in. intros x Hx.
  rewrite all_by_details_flat by exact Hinv. rewrite existsb_filter_.
  assert (X : existsb (fun x0 => text_eqb (rkey x0) (lower name) && details_match ty cl x0
                                  && (gcond now answers' x0 && gen_eq x x0)) (flat c)
              = pu (name, ty, cl) x && gcond now answers' x).
  { rewrite <- (existsb_self (flat c) x (fun r => pu (name, ty, cl) r && gcond now answers' r)
                  (di_flat c Hinv) Hx).
    apply existsb_ext_in_. intros r _. cbn [pu]. rewrite !andb_assoc. reflexivity. }
  rewrite X. reflexivity.
Qed.

Lemma mark_unique_flat now answers' : forall us c, Inv c ->
  Inv (mark_unique c us answers' now) /\
  flat (mark_unique c us answers' now) = map (mk now answers' us) (flat c).
Proof.
  unfold mark_unique. induction us as [|u us IH]; intros c Hinv.
  - split; [exact Hinv|]. cbn. symmetry. rewrite <- (map_id (flat c)) at 2. apply map_ext. reflexivity.
  - cbn [fold_left]. destruct (mark_one_flat now answers' c u Hinv) as [I1 F1].
    destruct (IH _ I1) as [I2 F2]. split; [exact I2|]. rewrite F2, F1, map_map. apply map_ext.
    intro x. unfold mk. cbn [existsb].
    destruct (pu u x) eqn:P, (gcond now answers' x) eqn:Gx; cbn [andb orb].
    + rewrite gcond_sl, andb_false_r. reflexivity.
    + rewrite Gx, !andb_false_r. reflexivity.
    + rewrite Gx. reflexivity.
    + rewrite Gx. reflexivity.
Qed.

(* ------------------------------------------------------------------ *)
(* batched adds *)

Lemma car_snoc : forall rs r c,
  fst (cache_add_records c (rs ++ [r])) = fst (cache_add (fst (cache_add_records c rs)) r).
Proof.
  induction rs as [|r' rs IH]; intros r c.
  - cbn. destruct (cache_add c r); reflexivity.
  - cbn [app cache_add_records]. destruct (cache_add c r') as [c1 n1].
    specialize (IH r c1).
    destruct (cache_add_records c1 (rs ++ [r])) as [c2 n2].
    destruct (cache_add_records c1 rs) as [c2' n2']. cbn [fst] in *. exact IH.
Qed.

Lemma car_app : forall l1 l2 c,
  fst (cache_add_records c (l1 ++ l2)) = fst (cache_add_records (fst (cache_add_records c l1)) l2).
Proof.
  induction l1 as [|r l1 IH]; intros l2 c; [reflexivity|].
  cbn [app cache_add_records]. destruct (cache_add c r) as [c1 n1].
  specialize (IH l2 c1).
  destruct (cache_add_records c1 (l1 ++ l2)) as [c2 n2].
  destruct (cache_add_records c1 l1) as [c2' n2']. cbn [fst] in *. exact IH.
Qed.

Lemma car_inv rs c : Inv c -> Inv (fst (cache_add_records c rs)).
Proof.
  intro Hinv. assert (G : Good c []) by (split; [exact Hinv|intros r []]).
  destruct (good_add_records [] rs c G) as [H _]. exact H.
Qed.

Lemma car_in : forall rs c, Inv c -> forall y,
  In y (flat (fst (cache_add_records c rs))) <->
  (In y (flat c) /\ forall r, In r rs -> gen_eq y r = false) \/
  find (fun r => gen_eq r y) (rev rs) = Some y.
Proof.
  induction rs as [|r rs IH] using rev_ind; intros c Hinv y.
  - cbn. split; [intro H; left; split; [exact H|intros r []]|intros [[H _]|H]; [exact H|discriminate]].
  - rewrite car_snoc, rev_app_distr. cbn [rev app find].
    rewrite (cache_add_flat_in _ r y (car_inv rs c Hinv)). rewrite (IH c Hinv y).
    destruct (gen_eq r y) eqn:E.
    + rewrite (eq_sym_ y r), E. split.
      * intros [H|[_ H]]; [right; f_equal; symmetry; exact H|discriminate].
      * intros [[_ H]|H].
        -- assert (Hr : In r (rs ++ [r])) by (apply in_or_app; right; left; reflexivity).
           specialize (H r Hr). rewrite eq_sym_, E in H. discriminate.
        -- left. inversion H. reflexivity.
    + assert (Ny : y <> r) by (intro C; subst y; rewrite eq_refl_ in E; discriminate).
      rewrite (eq_sym_ y r), E. split.
      * intros [H|[[[H1 H2]|H] _]]; [contradiction| |right; exact H].
        left. split; [exact H1|]. intros r' Hr'. apply in_app_or in Hr' as [Hr'|[Hr'|[]]]; [apply H2; exact Hr'|].
        subst r'. rewrite eq_sym_. exact E.
      * intros [[H1 H2]|H]; right; (split; [|reflexivity]); [left|right; exact H].
        split; [exact H1|]. intros r' Hr'. apply H2. apply in_or_app. left; exact Hr'.
Qed.

Lemma find_partition_type y N :
  find (fun r => gen_eq r y) (rev (filter isaddr N ++ filter (fun r => negb (isaddr r)) N))
  = find (fun r => gen_eq r y) (rev N).
Proof.
  rewrite rev_app_distr, find_app_, <- !filter_rev_.
  assert (T : forall x, gen_eq x y = true -> isaddr x = isaddr y).
  { intros x E. unfold isaddr. rewrite (gen_eq_type x y E). reflexivity. }
  destruct (isaddr y) eqn:A.
  - rewrite (find_none_all (fun r => gen_eq r y) (filter (fun r => negb (isaddr r)) (rev N))).
    + apply find_filter_. intros x _ E. rewrite (T x E). reflexivity.
    + intros x Hx. apply filter_In in Hx as [_ Hx]. destruct (gen_eq x y) eqn:E; [|reflexivity].
      rewrite (T x E) in Hx. discriminate.
  - rewrite (find_filter_ (fun r => gen_eq r y) (fun r => negb (isaddr r)) (rev N)).
    + destruct (find (fun r => gen_eq r y) (rev N)); [reflexivity|].
      apply find_none_all. intros x Hx. apply filter_In in Hx as [_ Hx].
      destruct (gen_eq x y) eqn:E; [|reflexivity]. rewrite (T x E) in Hx. discriminate.
    + intros x _ E. rewrite (T x E). reflexivity.
Qed.

(* which of the scheduled adds survives for an identity that was not cached *)
Lemma adds_find c answers y : Inv c -> in_cache c y = false ->
  find (fun r => gen_eq r y)
       (rev (filter isaddr (news c answers) ++ filter (fun r => negb (isaddr r)) (news c answers)))
  = option_map floorr (last_nonzero answers y).
Proof.
  intros Hinv Hin. rewrite find_partition_type. unfold news.
  rewrite <- filter_rev_, <- map_rev, find_filter_fuse, find_map_. unfold last_nonzero. f_equal.
  apply find_ext_. intro a. unfold isnew. rewrite floor_ttl0, gen_eq_floor_l.
  destruct (gen_eq a y) eqn:E.
  - rewrite (in_cache_floor c a Hinv), (in_cache_congr c a y Hinv E), Hin.
    destruct (p_ttl a =? 0); reflexivity.
  - rewrite andb_false_r. reflexivity.
Qed.
