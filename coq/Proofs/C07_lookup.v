(* C07, lookup order (Model/Info.v after the C07 repair): a pending ServiceInfo lookup that is handed a batch of record updates
   handles the address records last, so the position of the SRV record relative to the address records does not matter. *)
From Coq Require Import ZArith List Bool Lia ZifyBool.
From ZC Require Import Model.Base Model.PyRec Model.Dict Model.Re Model.Cache Model.Query Gen.Const Gen.DnsPure Model.Info.
From ZC Require Import Proofs.C18_info.
Ltac Zify.zify_post_hook ::= Z.to_euclidean_division_equations.

Definition pr1 (c : cache) (now : Z) (i : sinfo) (x : pyrec) : sinfo := fst (process_record c now i x).

Lemma process_records_fst c now rs : forall i b,
  fst (fold_left (fun acc r => let '(i', u) := process_record c now (fst acc) r in (i', snd acc || u)) rs (i, b))
  = fold_left (pr1 c now) rs i.
Proof.
  induction rs as [|x rs IH]; intros i b; cbn [fold_left]; [reflexivity|].
  cbn [fst snd]. unfold pr1 at 2. destruct (process_record c now i x) as [i' u]. cbn [fst]. apply IH.
Qed.

Lemma kind_eqb_neq a b : a <> b -> kind_eqb a b = false.
Proof. intro H. destruct (kind_eqb a b) eqn:E; [|reflexivity]. apply kind_eqb_eq in E. contradiction. Qed.

Lemma kind_eqb_refl a : kind_eqb a a = true.
Proof. apply kind_eqb_eq. reflexivity. Qed.

Section Batch.
  Variables (c : cache) (now : Z) (key : text) (h : text).

  (* the instance key never changes *)
  Lemma pr1_key i x : si_key (pr1 c now i x) = si_key i.
  Proof.
    unfold pr1, process_record.
    destruct (DNSRecord_is_expired x now); [reflexivity|].
    destruct (kind_eqb (p_kind x) KAddress && opt_text_eqb (Some (lower (p_name x))) (si_server_key i)).
    - unfold ip_version. destruct (length (p_address x) =? 4)%nat.
      + destruct (lifo_insert (p_address x) (si_v4 i)). reflexivity.
      + destruct (length (p_address x) =? 16)%nat; [|reflexivity].
        destruct (lifo_insert (p_address x) (si_v6 i)). reflexivity.
    - destruct (text_eqb (lower (p_name x)) (si_key i)) eqn:E; cbn [negb]; [|reflexivity].
      destruct (kind_eqb (p_kind x) KText); [reflexivity|].
      destruct (kind_eqb (p_kind x) KService); [|reflexivity].
      cbn [fst si_key]. apply text_eqb_eq. exact E.
  Qed.

  (* a live SRV record of the instance sets the host *)
  Lemma pr1_srv i x : p_kind x = KService -> DNSRecord_is_expired x now = false -> lower (p_name x) = si_key i ->
    si_server_key (pr1 c now i x) = Some (lower (p_server x)).
  Proof.
    intros K L N. unfold pr1, process_record. rewrite L, K. cbn [kind_eqb andb].
    rewrite N, text_eqb_refl. cbn [negb]. reflexivity.
  Qed.

  (* other non-address records keep the host, provided no SRV record of the instance names another host *)
  Lemma pr1_nonaddr_host i x : p_kind x <> KAddress ->
    (p_kind x = KService -> lower (p_name x) = si_key i -> lower (p_server x) = lower h) ->
    si_server_key i = Some (lower h) -> si_server_key (pr1 c now i x) = Some (lower h).
  Proof.
    intros K S Q. unfold pr1, process_record.
    destruct (DNSRecord_is_expired x now); [exact Q|].
    rewrite (kind_eqb_neq _ _ K). cbn [andb].
    destruct (text_eqb (lower (p_name x)) (si_key i)) eqn:E; cbn [negb]; [|exact Q].
    destruct (kind_eqb (p_kind x) KText); [exact Q|].
    destruct (kind_eqb (p_kind x) KService) eqn:KS; [|exact Q].
    cbn [fst si_server_key]. apply kind_eqb_eq in KS. apply text_eqb_eq in E. rewrite (S KS E). reflexivity.
  Qed.

  (* address records never change the host and never drop an address *)
  Lemma pr1_addr_keeps i x : p_kind x = KAddress ->
    si_server_key (pr1 c now i x) = si_server_key i /\
    (forall a, In a (si_v4 i) -> In a (si_v4 (pr1 c now i x))) /\
    (forall a, In a (si_v6 i) -> In a (si_v6 (pr1 c now i x))).
  Proof.
    intro K. unfold pr1, process_record.
    destruct (DNSRecord_is_expired x now); [cbn [fst]; auto|].
    rewrite K. cbn [kind_eqb andb].
    destruct (opt_text_eqb (Some (lower (p_name x))) (si_server_key i)).
    - unfold ip_version. destruct (length (p_address x) =? 4)%nat.
      + pose proof (lifo_insert_keeps (p_address x) (si_v4 i)) as Hk.
        destruct (lifo_insert (p_address x) (si_v4 i)) as [l added]. cbn [fst si_server_key si_v4 si_v6] in *. auto.
      + destruct (length (p_address x) =? 16)%nat; [|cbn [fst]; auto].
        pose proof (lifo_insert_keeps (p_address x) (si_v6 i)) as Hk.
        destruct (lifo_insert (p_address x) (si_v6 i)) as [l added]. cbn [fst si_server_key si_v4 si_v6] in *. auto.
    - destruct (negb (text_eqb (lower (p_name x)) (si_key i))); cbn [fst]; auto.
  Qed.

  (* a live address record of the host is taken *)
  Lemma pr1_addr_adds i x : p_kind x = KAddress -> DNSRecord_is_expired x now = false ->
    lower (p_name x) = lower h -> si_server_key i = Some (lower h) ->
    (length (p_address x) = 4%nat -> In (p_address x) (si_v4 (pr1 c now i x))) /\
    (length (p_address x) = 16%nat -> In (p_address x) (si_v6 (pr1 c now i x))).
  Proof.
    intros K L N Q. unfold pr1, process_record. rewrite L, K, Q, N. cbn [kind_eqb andb opt_text_eqb].
    rewrite text_eqb_refl. unfold ip_version. split; intro Hl; rewrite Hl; cbn [Nat.eqb].
    - pose proof (lifo_insert_has (p_address x) (si_v4 i)) as Hh.
      destruct (lifo_insert (p_address x) (si_v4 i)) as [l added]. exact Hh.
    - pose proof (lifo_insert_has (p_address x) (si_v6 i)) as Hh.
      destruct (lifo_insert (p_address x) (si_v6 i)) as [l added]. exact Hh.
  Qed.

  (* phase 1: the non-address records *)
  Lemma phase_nonaddr srv : forall L i,
    si_key i = key ->
    (forall x, In x L -> p_kind x <> KAddress) ->
    (forall x, In x L -> p_kind x = KService -> lower (p_name x) = key -> lower (p_server x) = lower h) ->
    p_kind srv = KService -> DNSRecord_is_expired srv now = false -> lower (p_name srv) = key ->
    (si_server_key i = Some (lower h) \/ In srv L) ->
    si_key (fold_left (pr1 c now) L i) = key /\ si_server_key (fold_left (pr1 c now) L i) = Some (lower h).
  Proof.
    induction L as [|x L IH]; intros i Hk Hna Hs K Lv N Hor; cbn [fold_left].
    - destruct Hor as [Q|[]]. split; assumption.
    - apply IH; try assumption.
      + rewrite pr1_key. exact Hk.
      + intros y Hy. apply Hna. right. exact Hy.
      + intros y Hy. apply Hs. right. exact Hy.
      + destruct Hor as [Q|[Hx|Hx]].
        * left. apply pr1_nonaddr_host; [apply Hna; left; reflexivity| |exact Q].
          rewrite Hk. apply Hs. left. reflexivity.
        * subst x. left. rewrite pr1_srv; [|exact K|exact Lv|rewrite Hk; exact N].
          f_equal. apply Hs; [left; reflexivity|exact K|exact N].
        * right. exact Hx.
  Qed.

  (* phase 2: the address records *)
  Lemma phase_addr adr : forall L i,
    (forall x, In x L -> p_kind x = KAddress) ->
    p_kind adr = KAddress -> DNSRecord_is_expired adr now = false -> lower (p_name adr) = lower h ->
    si_server_key i = Some (lower h) ->
    ((length (p_address adr) = 4%nat -> In (p_address adr) (si_v4 i)) /\
     (length (p_address adr) = 16%nat -> In (p_address adr) (si_v6 i)) \/ In adr L) ->
    (length (p_address adr) = 4%nat -> In (p_address adr) (si_v4 (fold_left (pr1 c now) L i))) /\
    (length (p_address adr) = 16%nat -> In (p_address adr) (si_v6 (fold_left (pr1 c now) L i))).
  Proof.
    induction L as [|x L IH]; intros i Ha K Lv N Q Hor; cbn [fold_left].
    - destruct Hor as [H|[]]. exact H.
    - destruct (pr1_addr_keeps i x (Ha x (or_introl eq_refl))) as [Ks [K4 K6]].
      apply IH; try assumption.
      + intros y Hy. apply Ha. right. exact Hy.
      + rewrite Ks. exact Q.
      + destruct Hor as [[H4 H6]|[Hx|Hx]].
        * left. split; intro Hl; [apply K4, H4|apply K6, H6]; exact Hl.
        * subst x. left. apply pr1_addr_adds; assumption.
        * right. exact Hx.
  Qed.
End Batch.

(* 7. the batch may list the SRV record and the address record in ANY order *)
Theorem batch_order_irrelevant : forall c1 now r news srv adr h,
  rq_done r = None ->                                                  (* the lookup is pending *)
  In srv news -> p_kind srv = KService -> DNSRecord_is_expired srv now = false ->
  lower (p_name srv) = si_key (rq_info r) -> p_server srv = h ->       (* a live SRV record of the instance, naming host h *)
  In adr news -> p_kind adr = KAddress -> DNSRecord_is_expired adr now = false ->
  lower (p_name adr) = lower h ->                                      (* a live address record of that host *)
  (length (p_address adr) = 4%nat \/ length (p_address adr) = 16%nat) ->
  (forall x, In x news -> p_kind x = KService -> lower (p_name x) = si_key (rq_info r) ->
             lower (p_server x) = lower h) ->                          (* no SRV record of the instance names another host *)
  let i' := rq_info (fst (request_update c1 now r news)) in
  is_complete i' = true /\
  (length (p_address adr) = 4%nat -> In (p_address adr) (si_v4 i')) /\
  (length (p_address adr) = 16%nat -> In (p_address adr) (si_v6 i')).
Proof.
  intros c1 now r news srv adr h Hd Hs Ks Ls Ns Eh Ha Ka La Na Hlen Hother i'.
  assert (Ei : i' = fold_left (pr1 c1 now) (filter (fun x => kind_eqb (p_kind x) KAddress) news)
                      (fold_left (pr1 c1 now) (filter (fun x => negb (kind_eqb (p_kind x) KAddress)) news) (rq_info r))).
  { unfold i', request_update. rewrite Hd.
    pose proof (process_records_fst c1 now (addresses_last news) (rq_info r) false) as F.
    unfold process_records.
    destruct (fold_left _ (addresses_last news) (rq_info r, false)) as [i1 u1]. cbn [fst rq_info] in F |- *.
    rewrite F. unfold addresses_last. rewrite fold_left_app. reflexivity. }
  set (L1 := filter (fun x => negb (kind_eqb (p_kind x) KAddress)) news) in Ei.
  set (L2 := filter (fun x => kind_eqb (p_kind x) KAddress) news) in Ei.
  destruct (phase_nonaddr c1 now (si_key (rq_info r)) h srv L1 (rq_info r) eq_refl) as [_ Q1].
  - intros x Hx. apply filter_In in Hx as [_ Hx]. apply negb_true_iff in Hx. intro C. rewrite C in Hx. discriminate.
  - intros x Hx. apply filter_In in Hx as [Hx _]. apply Hother. exact Hx.
  - exact Ks.
  - exact Ls.
  - exact Ns.
  - right. apply filter_In. split; [exact Hs|]. rewrite Ks. reflexivity.
  - destruct (phase_addr c1 now h adr L2 (fold_left (pr1 c1 now) L1 (rq_info r))) as [R4 R6].
    + intros x Hx. apply filter_In in Hx as [_ Hx]. apply kind_eqb_eq. exact Hx.
    + exact Ka.
    + exact La.
    + exact Na.
    + exact Q1.
    + right. apply filter_In. split; [exact Ha|]. rewrite Ka. reflexivity.
    + rewrite <- Ei in R4, R6. split; [|split; assumption].
      unfold is_complete. destruct Hlen as [Hl|Hl].
      * specialize (R4 Hl). destruct (si_v4 i'); [destruct R4|reflexivity].
      * specialize (R6 Hl). destruct (si_v6 i'); [destruct R6|]. apply orb_true_r.
Qed.

(* the old behaviour (records handled in packet order): the address record comes first, is not yet the host's, and is dropped;
   the SRV record then looks for the host's addresses in a cache that (phase 1: nothing added yet) does not hold them *)
Definition ex_name : text := [97; 46; 95; 116; 46].
Definition ex_host : text := [104; 46].
Definition ex_srv : pyrec :=
  {| p_kind := KService; p_name := ex_name; p_type_ := C_TYPE_SRV; p_class_ := C_CLASS_IN_UNIQUE; p_ttl := 120; p_created := 1000;
     p_address := []; p_scope_id := None; p_cpu := []; p_os := []; p_alias := []; p_text := [];
     p_priority := 0; p_weight := 0; p_port := 80; p_server := ex_host; p_next_name := []; p_rdtypes := [] |}.
Definition ex_adr : pyrec :=
  {| p_kind := KAddress; p_name := ex_host; p_type_ := C_TYPE_A; p_class_ := C_CLASS_IN_UNIQUE; p_ttl := 120; p_created := 1000;
     p_address := [10; 0; 0; 1]; p_scope_id := None; p_cpu := []; p_os := []; p_alias := []; p_text := [];
     p_priority := 0; p_weight := 0; p_port := 0; p_server := []; p_next_name := []; p_rdtypes := [] |}.
Definition ex_req : req :=
  {| rq_info := sinfo_init ex_name; rq_next := 1000; rq_last := 4000; rq_delay := C_LISTENER_TIME; rq_first := false;
     rq_forced := None; rq_done := None |}.

Example packet_order_fails :
  is_complete (fst (process_records empty_cache 1000 (sinfo_init ex_name) [ex_adr; ex_srv])) = false /\
  is_complete (fst (process_records empty_cache 1000 (sinfo_init ex_name) [ex_srv; ex_adr])) = true.
Proof. vm_compute. split; reflexivity. Qed.

(* after the repair both orders complete the lookup *)
Example batch_order_example :
  is_complete (rq_info (fst (request_update empty_cache 1000 ex_req [ex_adr; ex_srv]))) = true /\
  is_complete (rq_info (fst (request_update empty_cache 1000 ex_req [ex_srv; ex_adr]))) = true /\
  si_v4 (rq_info (fst (request_update empty_cache 1000 ex_req [ex_adr; ex_srv]))) = [[10; 0; 0; 1]].
Proof. vm_compute. repeat split; reflexivity. Qed.

Print Assumptions batch_order_irrelevant.
