"""C17 - shutdown is complete and quiet.
Model: coq/Model/Node.v (`done` gate on every transmission, unregister_all goodbyes, LClose); theorems coq/Props/C17.v.
Tie: label replay of the closing instance (lib/nodesim.py) - registration coroutines, announcement tasks, queue timers and deferred
queries keep producing labels after the close and the model must agree that they let nothing out.  Independent oracle: the
transmitted datagrams, every user callback, and the loop's exception handler over two further hours of virtual time with a live peer."""
import json

from lib.nodesim import NodeRecorder
from lib.simloop import Sim
from props import c03, c08, c09

TARGETS = ['Props/C17.vo', 'Corr/Node.vo']
TA, TB = '_t._tcp.local.', '_u._udp.local.'


def svc(name, t, host, idx):
    return dict(type=t, name=f"{name}.{t}", server=host, port=80 + idx, weight=0, priority=0, text=b'\x03a=b', host_ttl=120, other_ttl=4500,
                v4=[bytes([10, 0, 0, 1 + idx])], v6=[])


def gen_scenario(rng):
    before = [0, 1, 20, 60, 100, 121, 174, 176, 200, 226, 349, 351, 400, 449, 451, 500, 520, 700, 799, 801, 1000, 1500, 3000]
    return dict(
        registered=rng.choice([0, 1, 2, 2]),                       # services fully registered long before
        shared=rng.random() < 0.4,
        reg_in_progress=rng.choice([None, None] + before[:19]),     # a registration started this long before the close
        browser=rng.choice([None] + before + [10000]),              # a browser for the peer's type started this long before
        lookup=rng.choice([None, None] + before[:21]),              # a lookup (timeout 3 s) for the peer's / a missing service
        lookup_missing=rng.random() < 0.5,
        queries=sorted(rng.sample(before, rng.choice([0, 1, 2, 3]))),   # peer queries this long before the close (answers waiting in queues)
        qkinds=[rng.choice(['qm', 'qm', 'qu', 'tc', 'legacy', 'tc-legacy', 'tc-qu']) for _ in range(3)],   # (truncated ones are answered 400-500 ms later)
        loopback=rng.random() < 0.5,
        close_twice_gap=rng.choice([0, 1, 1000]),
        mcast=[rng.choice([20, 70, 120]) for _ in range(60)], tcd=[rng.choice([400, 450, 500]) for _ in range(10)],
        fq=[rng.choice([20, 57, 120]) for _ in range(6)])


def vary(sc, rng):
    """the same instance, with whatever is in flight re-timed on a 5 ms grid relative to the close"""
    import copy
    v = copy.deepcopy(sc)
    v['reg_in_progress'] = rng.choice([None, rng.randrange(0, 1500, 5), rng.randrange(0, 1500, 5)])
    v['queries'] = sorted(rng.sample(range(0, 1600, 5), rng.choice([0, 1, 2, 3])))
    v['registered'] = max(1, v['registered'])
    v['loopback'] = rng.random() < 0.5
    return v


def run_scenario(sc):
    import asyncio
    from zeroconf import DNSOutgoing, DNSQuestion, const
    from zeroconf.asyncio import AsyncServiceBrowser, AsyncServiceInfo
    res = {'callbacks': [], 'lookup_done': []}
    with Sim(loopback=sc['loopback']) as sim:
        holder = {}

        async def main():
            nr = NodeRecorder(sim).install()
            holder['nr'] = nr
            a = await sim.start_host('A', '10.0.0.1')
            nr.attach(a)
            b = await sim.start_host('B', '10.0.0.2')
            sim.randoms['mcast_delay'] = list(sc['mcast'])
            sim.randoms['tc_delay'] = list(sc['tcd'])
            sim.randoms['first_query_delay'] = list(sc['fq'])
            svcs = [svc(f"s{i}", TA, 'hs.local.' if sc['shared'] else f"h{i}.local.", i) for i in range(sc['registered'])]
            res['svcs'] = svcs
            for s in svcs:
                rid, task = nr.register(c03.mk_info(s), cooperating_responders=True)
                assert (await task)[0] == 'ok'
            # the peer: one service of its own, and a browser for A's type (periodic traffic for hours)
            binfo = c03.mk_info(svc('peer', TB, 'hb.local.', 7))
            await (await b.zc.async_register_service(binfo, cooperating_responders=True))

            class L:
                def add_service(self, zc, t, name):
                    res['callbacks'].append((sim.now, 'peer-add', name))

                def remove_service(self, zc, t, name):
                    pass

                def update_service(self, zc, t, name):
                    pass
            bbrowser = AsyncServiceBrowser(b.zc, [TA], listener=L())
            await sim.sleep(8000)
            tc = sim.now + 12000          # the close instant
            res['tc'] = tc
            events = []
            if sc['reg_in_progress'] is not None:
                events.append((tc - sc['reg_in_progress'], 'register'))
            if sc['browser'] is not None:
                events.append((tc - sc['browser'], 'browse'))
            if sc['lookup'] is not None:
                events.append((tc - sc['lookup'], 'lookup'))
            for d, kind in zip(sc['queries'], sc['qkinds']):
                events.append((tc - d, 'query:' + kind))
            events.sort(key=lambda e: e[0])
            state = {}

            class AL:
                def add_service(self, zc, t, name):
                    res['callbacks'].append((sim.now, 'add', name))

                def remove_service(self, zc, t, name):
                    res['callbacks'].append((sim.now, 'remove', name))

                def update_service(self, zc, t, name):
                    res['callbacks'].append((sim.now, 'update', name))

            async def lookup():
                name = ('nobody.' if sc['lookup_missing'] else 'peer.') + TB
                info = AsyncServiceInfo(TB, name)
                try:
                    ok = await info.async_request(a.zc, 3000)
                except Exception as e:  # noqa: BLE001  (a lookup on an instance that is closing raises NotRunningException to its caller)
                    res['lookup_done'].append((sim.now, type(e).__name__))
                    return
                res['lookup_done'].append((sim.now, bool(ok)))
            extra = svc('late', TA, 'hl.local.', 5)
            qid = [200]

            def query(kind):
                qid[0] += 1
                out = DNSOutgoing(const._FLAGS_QR_QUERY | (const._FLAGS_TC if kind.startswith('tc') else 0), multicast='legacy' not in kind, id_=qid[0])
                out.add_question(DNSQuestion(TA, const._TYPE_PTR, const._CLASS_IN | (const._CLASS_UNIQUE if kind.endswith('qu') else 0)))
                if svcs:
                    out.add_question(DNSQuestion(svcs[0]['name'], const._TYPE_SRV, const._CLASS_IN))
                sim.net.inject(a, out.packets()[0], ('10.0.0.2', 40000 if 'legacy' in kind else 5353))
            tasks = []
            for (t, what) in events:
                await sim.sleep_until(t)
                if what == 'register':
                    rid, task = nr.register(c03.mk_info(extra))
                    tasks.append(task)
                elif what == 'browse':
                    state['browser'] = AsyncServiceBrowser(a.zc, [TB], listener=AL())
                elif what == 'lookup':
                    tasks.append(asyncio.ensure_future(lookup()))
                else:
                    query(what.split(':')[1])
            await sim.sleep_until(tc)
            res['registry_at_close'] = sorted(a.zc.registry._services)
            res['mark_start'] = len(sim.net.log)
            await a.azc.async_close()
            res['t_closed'] = sim.now
            res['mark'] = len(sim.net.log)
            res['cb_mark'] = len(res['callbacks'])
            res['lk_mark'] = len(res['lookup_done'])
            res['esc_mark'] = len(sim.loop.escaped)
            # the world goes on: the peer withdraws its service and registers another one; two hours pass
            await sim.sleep(5000)
            await (await b.zc.async_unregister_service(binfo))
            binfo2 = c03.mk_info(svc('peer2', TB, 'hb.local.', 8))
            await (await b.zc.async_register_service(binfo2, cooperating_responders=True))
            await sim.sleep(3600 * 1000)
            await (await b.zc.async_unregister_service(binfo2))
            await sim.sleep(3600 * 1000)
            for t in tasks:
                if not t.done():
                    t.cancel()
            # closing again is a no-op
            res['mark2'] = len(sim.net.log)
            await sim.sleep(sc['close_twice_gap'])
            await a.azc.async_close()
            await sim.sleep(2000)
            res['t_end'] = sim.now
            nr.uninstall()
            await bbrowser.async_cancel()
            await b.azc.async_close()
        try:
            sim.run(main())
        finally:
            if 'nr' in holder:
                holder['nr'].uninstall()
        res['escaped'] = [str(e) for e in sim.loop.escaped]
        res['log'] = [(ms, host, dest, data) for (ms, host, dest, data, idx) in sim.net.log]
    res['labels'], res['obs'] = holder['nr'].labels, holder['nr'].obs
    return res


def oracle(sc, res):
    if res['escaped']:
        return f"exception in the event loop: {res['escaped'][0][:300]}"
    tc = res['tc']
    late = [(ms, dest) for (ms, host, dest, data) in res['log'][res['mark']:] if host == 'A']
    if late:
        return f"transmission by the closed instance at +{late[0][0] - tc} ms after the close was requested (close returned at +{res['t_closed'] - tc}): dest {late[0][1]}"
    cbs = res['callbacks'][res['cb_mark']:]
    cbs = [c for c in cbs if c[1] != 'peer-add']
    if cbs:
        return f"listener callback {cbs[0][1]}({cbs[0][2]}) fired at +{cbs[0][0] - tc} ms, after close returned at +{res['t_closed'] - tc}"
    # registered services were withdrawn before the sockets closed: three goodbyes with every record, and the last copy of each record
    # that went out carries TTL 0
    during = [(ms, dest, c09.parse(data)) for (ms, host, dest, data) in res['log'][:res['mark']] if host == 'A']
    for s in res['svcs']:
        core, hostrecs = c08.own_idents(s)
        want = core + hostrecs
        byes = [ms for ms, dest, m in during if ms >= tc and not m.is_query() and all(w in {c08.ident(r) for r in m.answers() if r.ttl == 0} for w in want)]
        if len(byes) != 3:
            return f"{len(byes)} complete goodbyes for {s['name']} before the sockets closed (expected 3)"
        last = {}
        for ms, dest, m in during:
            if not m.is_query():
                for r in m.answers():
                    if c08.ident(r) in want:
                        last[c08.ident(r)] = (ms, r.ttl)
        for w, (ms, ttl) in last.items():
            if ttl != 0:
                return f"the last copy of {w[:2]} transmitted before the sockets closed (+{ms - tc}) has TTL {ttl}: the service is left advertised"
    return None


def run(ctx):
    ok = ctx.build(TARGETS)
    if ok:
        ok = ctx.assumptions()
    ctx.count_obligations('Props/C17.v')
    rng = ctx.rng
    n = 200 if ctx.tier == 'quick' else 3000
    scenarios = [gen_scenario(rng) for _ in range(n)]
    for sc, res, why in c09.check_scenarios(ctx, scenarios, run_scenario, oracle, 'c17', ''):
        after = [lab.split()[0] for lab in res['labels'][next((i for i, l in enumerate(res['labels']) if l.startswith('LClose')), len(res['labels'])):]]
        for k in sorted(set(after) - {'LClose'}):
            ctx.hist('after-close:' + k)
        ctx.hist(f"registered:{sc['registered']}")
        for k in ('reg_in_progress', 'browser', 'lookup'):
            ctx.hist(f"{k}:{'yes' if sc[k] is not None else 'no'}")
        ctx.hist(f"queries:{len(sc['queries'])}")
    ctx.sample(c09.jsonable(scenarios[0]))
    ctx.cov['rule'] = ("instance A (0-2 registered services, optionally a registration, a browser, a 3 s lookup and 0-3 peer queries QM/QU/TC-deferred/"
                       "legacy started 0..3000 ms before) is closed with async_close while a live peer B (own service, browser for A's type) shares the "
                       "simulated link, with and without multicast loopback; afterwards B withdraws and registers services and two hours of virtual time "
                       "pass, then A is closed again; observed: every datagram A transmits, every browser/lookup callback, the loop exception handler; "
                       "distinct = distinct scenarios; the sync close() from a foreign thread is not exercised (it wraps the same coroutines)")
    c09.replay_model(ctx, ok, 'Model.Node (shutdown) disagrees with the implementation', vary=vary)
    return ctx.finish()


def replay(ctx, path):
    from props.c05 import unjson
    r = json.load(open(path))
    if 'scenario' not in r:
        return run(ctx)
    sc = unjson(r['scenario'])
    res = run_scenario(sc)
    why = oracle(sc, res)
    print("replay:", f"still fails: {why}" if why else "passes")
    return 1 if why else 0
