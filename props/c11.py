"""C11 - replies are routed and formatted as RFC 6762 sections 5.4, 6 and 6.7 require.
Model: coq/Model/Respond.v (classification) + Model/Route.v (handle_assembled_query, construct_outgoing_*); theorems coq/Props/C11.v.
Ties: (1) the real QueryHandler.handle_assembled_query (stub transport/queues) against the model; (2) wire-level oracle on the full stack."""
import json

from lib.fakemsg import FakeIncoming
from lib import cachesim, common
from lib.cachesim import rec, coq_rec
from lib.common import cz, ctext, cbool, clist
from lib.simloop import Sim
from props import c03

TARGETS = ['Props/C11.vo', 'Corr/C11.vo']
T = '_t._tcp.local.'


# ------------------------------------------------------------------------------------------------
# (1) handle_assembled_query against the model (cases from the C03 generator, plus source port / id)
# ------------------------------------------------------------------------------------------------

def observe(case):
    from zeroconf._cache import DNSCache
    from zeroconf._handlers.query_handler import QueryHandler
    from zeroconf._handlers.record_manager import RecordManager
    from zeroconf._history import QuestionHistory
    from zeroconf._services.registry import ServiceRegistry
    actions = []

    class Q:
        def __init__(self, code):
            self.code = code

        def async_add(self, now, answers):
            actions.append([self.code, int(now), c03.vset([c03.vrec_ident(r) for r in answers])])

    def vout(out):
        return [out.id, out.flags, bool(out.multicast), [[q.name, q.type, q.class_, bool(q.unique)] for q in out.questions],
                c03.vset([c03.vrec_ident(r) for r, _ in out.answers]), c03.vset([c03.vrec_ident(r) for r in out.additionals])]

    class ZC:
        def async_send(self, out, addr=None, port=5353, v6_flow_scope=(), transport=None):
            if addr is None:
                actions.append([2, vout(out)])
            else:
                assert transport == 'TRANSPORT'
                actions.append([1, addr, port, vout(out)])

        def async_notify_all(self):
            pass
    zc = ZC()
    zc.registry = ServiceRegistry()
    zc.cache = DNSCache()
    zc.question_history = QuestionHistory()
    zc.out_queue, zc.out_delay_queue = Q(3), Q(4)
    rm = RecordManager(zc)
    infos = {}
    for op, arg in case['ops']:
        try:
            if op in ('add', 'update-new'):
                info = c03.mk_info(arg)
                (zc.registry.async_add if op == 'add' else zc.registry.async_update)(info)
                infos[info.key] = info
            elif op == 'remove':
                key = arg.lower()
                if key in infos:
                    zc.registry.async_remove(infos.pop(key))
        except Exception:  # noqa: BLE001
            pass

    class Msg:
        pass
    for t, recs in case['cache']:
        m = FakeIncoming(answers=[cachesim.mk(dict(r, created=t)) for r in recs], now=t, flags=0x8400)
        rm.async_updates_from_response(m)
    msgs = []
    for md in case['msgs']:
        m = FakeIncoming(questions=[cachesim.mk(q) for q in md['questions']],
                         answers=[cachesim.mk(dict(r, created=md['now'])) for r in md['answers']],
                         now=md['now'], is_probe=md['is_probe'], ident=case['id'])
        msgs.append(m)
    QueryHandler(zc).handle_assembled_query(msgs, case['addr'], case['port'], 'TRANSPORT', ())
    return actions


def coq_case(case):
    ops = []
    for op, arg in case['ops']:
        if op == 'add':
            ops.append(f"RAdd {c03.coq_svc(arg)}")
        elif op == 'update-new':
            ops.append(f"RUpdate {c03.coq_svc(arg)}")
        else:
            ops.append(f"RRemove {ctext(arg)}")
    dgs = clist(f"({cz(t)}, {clist(coq_rec(dict(r, created=t)) for r in recs)})" for t, recs in case['cache'])
    msgs = clist("{| qm_questions := %s; qm_answers := %s; qm_is_probe := %s; qm_now := %s |}" % (
        clist(coq_rec(q) for q in m['questions']), clist(coq_rec(dict(r, created=m['now'])) for r in m['answers']),
        cbool(m['is_probe']), cz(m['now'])) for m in case['msgs'])
    return "{| j_ops := %s; j_cache := %s; j_msgs := %s; j_id := %s; j_addr := %s; j_port := %s |}" % (
        clist(ops), dgs, msgs, cz(case['id']), ctext(case['addr']), cz(case['port']))


def gen_case(rng):
    while True:
        case = c03.gen_case(rng)
        if all(op in ('add', 'update-new', 'remove') for op, _ in case['ops']):
            break
    case['id'] = rng.choice([0, 1, 4660, 65535])
    case['addr'] = rng.choice(['10.0.0.7', 'fe80::1'])
    case['port'] = rng.choice([5353, 5353, 5354, 40000])
    return case


# ------------------------------------------------------------------------------------------------
# (2) wire-level oracle on the full stack
# ------------------------------------------------------------------------------------------------

def q_bytes(questions, ident=0, auth=()):
    from zeroconf import DNSOutgoing, DNSQuestion
    o = DNSOutgoing(0, multicast=True)      # multicast=True so that the QU bit is written; the id is patched in afterwards
    for n, t, qu in questions:
        o.add_question(DNSQuestion(n, t, 1 | (0x8000 if qu else 0)))
    for r in auth:
        o.add_authorative_answer(cachesim.mk(r))
    b = bytearray(o.packets()[0])
    b[0], b[1] = ident >> 8, ident & 0xFF
    return bytes(b)


def gen_scenario(rng):
    """one query after the host's own announcements were last seen `age` ms ago"""
    qkind = rng.choice(['ptr', 'srv', 'txt', 'a', 'ptr+srv'])
    qu = rng.random() < 0.6
    mixed = rng.choice(['qm-qu', 'qu-qm']) if qkind == 'ptr+srv' and rng.random() < 0.6 else None   # one QM and one QU question, either order
    port = rng.choice([5353, 5353, 5354, 40000])
    probe = rng.random() < 0.3
    # records were multicast (and looped back) at announcement time; query arrives `age` later:
    # around 1 s, around one quarter of the host TTL (120 s -> 30 s) and of the other TTL (4500 s -> 1125 s)
    age = rng.choice([300, 999, 1000, 1001, 5000, 29999, 30000, 30001, 60000, 1124999, 1125000, 1125001, 2000000])
    # the same datagram once more, inside the listener's one-second duplicate window (a query with a QU question is exempt from it)
    repeat = rng.choice([None, None, 10, 500, 999])
    return dict(qkind=qkind, qu=qu, mixed=mixed, port=port, probe=probe, age=age, ident=rng.choice([0, 7, 65535]), two_sockets=rng.random() < 0.3,
                repeat=repeat)


def run_scenario(sc):
    from zeroconf import ServiceInfo
    from zeroconf._protocol.incoming import DNSIncoming
    out = {}
    with Sim(loopback=True) as sim:
        async def main():
            fam = ('v4', 'v6') if sc['two_sockets'] else ('v4',)
            a = await sim.start_host('A', '10.0.0.1', addr6='fe80::1', families=fam)
            x = ServiceInfo(T, 'x.' + T, port=80, addresses=[bytes([10, 0, 0, 1])], server='h.local.')
            await a.azc.async_register_service(x)
            await sim.sleep(1000)       # three announcements at +0, +225, +450 have gone out and looped back
            last_announce = max(ms for ms, h, dest, data, idx in sim.net.log if dest and dest[0] == '224.0.0.251')
            await sim.sleep_until(last_announce + sc['age'])
            base = len(sim.net.log)
            names = {'ptr': [(T, 12)], 'srv': [('x.' + T, 33)], 'txt': [('x.' + T, 16)], 'a': [('h.local.', 1)],
                     'ptr+srv': [(T, 12), ('x.' + T, 33)]}[sc['qkind']]
            auth = [rec('KPointer', T, 12, 1, alias='other.' + T, ttl=4500)] if sc['probe'] else []
            flags = [sc['qu']] * len(names)
            if sc.get('mixed'):
                flags = [True, False] if sc['mixed'] == 'qu-qm' else [False, True]
            data = q_bytes([(n, t, f) for (n, t), f in zip(names, flags)], ident=sc['ident'], auth=auth)
            out['t'] = sim.now
            out['query'] = data
            # when did the host last see each of its own records multicast (its cache is the only memory it has of that)
            seen = {}
            for nm in (T, 'x.' + T, 'h.local.'):
                for r in a.zc.cache.entries_with_name(nm):
                    seen[r.type] = (int(r.created), int(r.ttl))
            out['seen'] = seen
            sim.randoms['mcast_delay'] = [57]
            sim.net.inject(a, data, ('10.0.0.7', sc['port']), sock=0)
            if sc.get('repeat'):
                await sim.sleep(sc['repeat'])
                sim.net.inject(a, data, ('10.0.0.7', sc['port']), sock=0)
            await sim.sleep(3000)
            out['sends'] = [(ms - out['t'], dest, data, idx) for ms, h, dest, data, idx in sim.net.log[base:]]
            out['last_announce_age'] = out['t'] - last_announce
            await a.azc.async_close()
        sim.run(main())
        out['escaped'] = list(sim.loop.escaped)
    return out


def oracle_scenario(sc, out):
    from zeroconf._protocol.incoming import DNSIncoming
    if out['escaped']:
        return f"exception in the event loop: {out['escaped'][0]}"
    mc, uc = [], []
    for dt, dest, data, idx in out['sends']:
        m = DNSIncoming(data)
        recs = m.answers()
        if dest[0] in ('224.0.0.251', 'ff02::fb'):
            if m.id != 0 or m.flags != 0x8400 or m.questions:
                return f"multicast reply with id {m.id}, flags {m.flags:#x}, {len(m.questions)} questions"
            for r in recs:
                if bool(r.unique) != (r.type != 12):
                    return f"multicast reply: cache-flush bit {r.unique} on {type(r).__name__} type {r.type}"
            if dest[0] == '224.0.0.251':
                mc.append((dt, m, recs))
        else:
            uc.append((dt, dest, m, recs, idx))
    q = DNSIncoming(out['query'])
    want = {'ptr': [12], 'srv': [33], 'txt': [16], 'a': [1], 'ptr+srv': [12, 33]}[sc['qkind']]
    age = out['last_announce_age']

    def is_recent(t):
        if t not in out['seen']:
            return False
        created, ttl = out['seen'][t]
        return created + 250 * ttl > out['t']
    legacy = sc['port'] != 5353
    for u in uc:
        if u[1] != ('10.0.0.7', sc['port']):
            return f"unicast reply sent to {u[1]} instead of the querier"
        if u[4] != 0:
            return "unicast reply left through a socket other than the one the query arrived on"
        if legacy:
            if u[2].id != sc['ident']:
                return f"legacy unicast reply id {u[2].id}, query id {sc['ident']}"
            if [(x.name, x.type) for x in u[2].questions] != [(x.name, x.type) for x in q.questions]:
                return "legacy unicast reply does not echo the questions"
            if any(r.unique for r in u[3]):
                return "legacy unicast reply carries a cache-flush bit"
    qu_of = {t: sc['qu'] for t in want}
    if sc.get('mixed'):
        qu_of = {12: True, 33: False} if sc['mixed'] == 'qu-qm' else {12: False, 33: True}
    # a repeated query that contains a QU question is not a duplicate to the listener: its QU questions are answered again, and by then the
    # record has been seen on the wire, so by unicast
    if sc.get('repeat') and not legacy and not sc['probe']:
        for t in want:
            if qu_of[t] and not any(u[0] >= sc['repeat'] and any(r.type == t for r in u[3][:u[2].num_answers]) for u in uc):
                return (f"the query (QU question for type {t}) arrived again after {sc['repeat']} ms and got no unicast reply: a datagram with a QU "
                        f"question was treated as a duplicate")
    for t in want:
        recent = is_recent(t)
        # unicast replies are immediate: those of the first copy leave at +0 (a repeated copy, if any, is judged separately above)
        in_uc = any(r.type == t for u in uc if u[0] == 0 or not sc.get('repeat') for r in u[3][:u[2].num_answers])
        mc_now = any(dt == 0 and any(r.type == t for r in recs[:m.num_answers]) for dt, m, recs in mc)
        mc_any = any(any(r.type == t for r in recs) for dt, m, recs in mc)
        mc_ans = any(any(r.type == t for r in recs[:m.num_answers]) for dt, m, recs in mc)   # as an answer, not as an additional
        if legacy:
            if not in_uc:
                return f"query from port {sc['port']}: no unicast reply carrying type {t}"
            if not mc_any:
                return f"query from port {sc['port']}: type {t} not multicast as well"
            continue
        if qu_of[t]:
            if sc['probe']:
                if not in_uc:
                    return f"QU probe: no unicast reply carrying type {t}"
                if mc_now != (not recent):
                    return f"QU probe: multicast-now is {mc_now} although the record was {'recently' if recent else 'not recently'} multicast"
            else:
                if recent and (not in_uc or mc_ans):
                    return f"QU question, type {t} multicast {age} ms ago (within a quarter of its TTL): expected unicast only (unicast={in_uc}, multicast={mc_any})"
                if not recent and (in_uc or not mc_now):
                    return f"QU question, type {t} last multicast {age} ms ago (beyond a quarter of its TTL): expected multicast at once and no unicast (unicast={in_uc}, multicast-now={mc_now})"
        else:
            if in_uc and not sc.get('mixed'):
                return "QM question from port 5353 answered by unicast"
            if sc['probe'] and not mc_now:
                return f"QM probe: type {t} not multicast at once"
            if not mc_any:
                return f"QM question: type {t} never multicast"
    return None


def jsonable(x):
    from props.c05 import jsonable as j
    return j(x)


def run(ctx):
    ok = ctx.build(TARGETS)
    if ok:
        ok = ctx.assumptions()
    ctx.count_obligations('Props/C11.v')
    rng = ctx.rng
    quick = ctx.tier == 'quick'
    coq_cases = []
    for _ in range(1000 if quick else 15000):
        case = gen_case(rng)
        obs = observe(case)
        coq_cases.append((coq_case(case), obs, case))
        ctx.count(('h', repr(case)), nontrivial=bool(obs))
        for a in obs:
            ctx.hist('action:' + {1: 'unicast', 2: 'multicast-now', 3: 'queue', 4: 'delay-queue'}[a[0]])
    fails = []
    # first a fixed grid of the rarest shape: a two-question query with one QU and one QM question (either order) arriving twice inside the
    # listener's duplicate window, recently and long after the announcements
    grid = [dict(qkind='ptr+srv', qu=True, mixed=mx, port=5353, probe=False, age=age, ident=0, two_sockets=False, repeat=rp)
            for mx in ('qu-qm', 'qm-qu') for rp in (10, 999) for age in (5000, 2000000)]
    for k in range(len(grid) + (250 if quick else 4000)):
        sc = grid[k] if k < len(grid) else gen_scenario(rng)
        out = run_scenario(sc)
        why = oracle_scenario(sc, out)
        if why:
            fails.append((sc, why))
        ctx.count(('s', repr(sc)), nontrivial=True)
        ctx.hist(f"scenario:{'QU' if sc['qu'] else 'QM'}{'-probe' if sc['probe'] else ''}{'-legacy' if sc['port'] != 5353 else ''}")
    ctx.sample(jsonable(gen_scenario(rng)))
    ctx.cov['rule'] = ("(1) registries x queries (1-3 questions, QU/QM, probes, known answers) x source port {5353, 5354, 40000} x id x cache sightings at the 1 s and quarter-TTL "
                       "boundaries: the actions of handle_assembled_query (unicast / multicast-now / queue / delay-queue with id, flags, question echo, sections) compared with "
                       "the model; (2) one query against a host whose records were last multicast 300 ms .. 2000 s ago, 1-2 sockets: destination, socket, id, flags, question "
                       "echo and cache-flush bits of every datagram on the wire. distinct = distinct cases")
    for sc, why in fails[:3]:
        ctx.violation({'kind': 'oracle', 'why': why, 'scenario': jsonable(sc), 'broken': None if ok else ctx.build_msg})
    if not ok:
        if not ctx.violations:
            ctx.violation({'kind': 'broken-obligation', 'broken': ctx.build_msg}, no_input=True)
        return ctx.finish()
    mism = ctx.run_cases('Model.Base Model.PyRec Model.Respond Model.Route Model.ValSet Corr.C03 Corr.C11', 'c11_in', 'c11_run',
                         [(c, o) for c, o, _ in coq_cases], shard=max(20, len(coq_cases) // (2 * common.NPROC) + 1), mismatch_fn='mismatches_u')
    ctx.cov['traces_validated_against_impl'] = len(coq_cases) - len(mism)
    for idx, model_out in mism[:3]:
        ctx.violation({'kind': 'correspondence', 'what': 'Model.Route.handle_assembled_query disagrees with the implementation',
                       'case': jsonable(coq_cases[idx][2]), 'implementation': str(coq_cases[idx][1])[:2000], 'model': model_out[:2000]}, no_input=True)
    return ctx.finish()


def replay(ctx, path):
    r = json.load(open(path))
    if 'scenario' not in r:
        return run(ctx)
    sc = r['scenario']
    out = run_scenario(sc)
    why = oracle_scenario(sc, out)
    print("replay:", f"still fails: {why}" if why else "passes")
    return 1 if why else 0
