"""C02 - decoder is total, bounded and faithful on arbitrary datagrams.
Model: coq/Model/WireDec.v (+ Utf8); theorems coq/Props/C02.v; correspondence: every generated
datagram is decoded by DNSIncoming and by the model and compared field by field."""
import json
import struct
import sys

from lib import cachesim, common, rfc1035
from lib.common import ctext, copt

TARGETS = ['Props/C02.vo', 'Corr/C02.vo']
NOW = 1000


# ------------------------------------------------------------------------------------------------
# observation of the implementation
# ------------------------------------------------------------------------------------------------

EXC_CODE = {'IndexError': 1, 'IncomingDecodeError': 2, 'NamePartTooLongException': 3, 'ValueError': 5, 'RecursionError': 6,
            'KeyError': 7, 'AssertionError': 8, 'error': 12, 'UnicodeDecodeError': 13}


class WorkBudgetExceeded(BaseException):
    """raised by the watchdog when decoding one datagram does not finish within 5 s"""


def observe(data, scope=None, count_calls=False):
    """-> (val, info) ; info has the python objects for the oracle"""
    from zeroconf._protocol.incoming import DNSIncoming
    calls = [0]

    def prof(frame, event, arg):
        if event == 'call':
            calls[0] += 1
    try:
        if count_calls:
            sys.setprofile(prof)
        import signal

        def too_long(signum, frame):
            raise WorkBudgetExceeded()
        old_handler = signal.signal(signal.SIGALRM, too_long)
        signal.setitimer(signal.ITIMER_REAL, 5.0)        # a datagram of at most 9000 bytes decodes in milliseconds: 5 s = not finishing
        try:
            m = DNSIncoming(data, scope_id=scope, now=NOW)
            ans = m.answers()
        finally:
            signal.setitimer(signal.ITIMER_REAL, 0)
            signal.signal(signal.SIGALRM, old_handler)
            if count_calls:
                sys.setprofile(None)
    except BaseException as e:  # noqa: BLE001
        return [1, EXC_CODE.get(type(e).__name__, 99)], {'escaped': type(e).__name__, 'calls': calls[0]}
    v = [0, bool(m.valid), m.id, m.flags, m.num_questions, m.num_answers, m.num_authorities, m.num_additionals,
         [[q.name, q.type, q.class_, bool(q.unique)] for q in m.questions], [cachesim.vrec(r) for r in ans]]
    return v, {'escaped': None, 'msg': m, 'answers': ans, 'calls': calls[0]}


def all_names(info):
    out = [q.name for q in info['msg'].questions]
    for r in info['answers']:
        out.append(r.name)
        for a in ('alias', 'server', 'next_name'):
            if hasattr(r, a):
                out.append(getattr(r, a))
    return out


def strict_view_of_impl(info):
    qs = [(q.name, q.type, q.class_, bool(q.unique)) for q in info['msg'].questions]
    rs = []
    for r in info['answers']:
        k = type(r).__name__
        base = dict(name=r.name, type=r.type, cls=r.class_, unique=bool(r.unique), ttl=r.ttl)
        if k == 'DNSAddress':
            base['rdata'] = ('address', bytes(r.address))
        elif k == 'DNSPointer':
            base['rdata'] = ('alias', r.alias)
        elif k == 'DNSText':
            base['rdata'] = ('text', bytes(r.text))
        elif k == 'DNSService':
            base['rdata'] = ('srv', r.priority, r.weight, r.port, r.server)
        elif k == 'DNSHinfo':
            base['rdata'] = ('hinfo', r.cpu, r.os)
        elif k == 'DNSNsec':
            base['rdata'] = ('nsec', r.next_name, sorted(r.rdtypes))
        rs.append(base)
    return qs, rs


def strict_val(s):
    if s is None:
        return []
    recs = []
    for r in s['records']:
        rd = r['rdata']
        if rd[0] == 'unknown':
            continue
        kind = {'address': 1, 'hinfo': 2, 'alias': 3, 'text': 4, 'srv': 5, 'nsec': 6}[rd[0]]
        f = dict(address=b'', cpu='', os='', alias='', text=b'', priority=0, weight=0, port=0, server='', next_name='', rdtypes=[])
        if rd[0] == 'address':
            f['address'] = rd[1]
        elif rd[0] == 'hinfo':
            f['cpu'], f['os'] = rd[1], rd[2]
        elif rd[0] == 'alias':
            f['alias'] = rd[1]
        elif rd[0] == 'text':
            f['text'] = rd[1]
        elif rd[0] == 'srv':
            f['priority'], f['weight'], f['port'], f['server'] = rd[1:]
        elif rd[0] == 'nsec':
            f['next_name'], f['rdtypes'] = rd[1], rd[2]
        recs.append([kind, r['name'], r['type'], r['cls'], r['unique'], r['ttl'], NOW,
                     [f['address'], None, f['cpu'], f['os'], f['alias'], f['text'], f['priority'], f['weight'], f['port'],
                      f['server'], f['next_name'], f['rdtypes']]])
    return [s['id'], s['flags'], list(s['counts']), [[n, t, c, u] for n, t, c, u in s['questions']], recs, s['all_supported']]


def oracle(data, info):
    if info['escaped']:
        return f"{info['escaped']} escaped from DNSIncoming(data) / answers()"
    budget = 400 * (len(data) + 12)
    if info['calls'] > budget:
        return f"work budget exceeded: {info['calls']} Python calls for {len(data)} bytes (budget {budget})"
    m = info['msg']
    if m.valid:
        for n in all_names(info):
            if len(n) > 253:
                return f"valid message with a name of {len(n)} characters"
    s = rfc1035.parse(data)
    if s is not None and s['all_supported']:
        if not m.valid:
            return "strict RFC 1035 parser accepts the datagram, the library marks it invalid"
        qs, rs = strict_view_of_impl(info)
        if qs != s['questions']:
            return f"questions differ from the strict parser: {qs!r} vs {s['questions']!r}"
        if rs != s['records']:
            return f"records differ from the strict parser: {rs!r} vs {s['records']!r}"
        if (m.id, m.flags) != (s['id'], s['flags']):
            return "id/flags differ from the strict parser"
    return None


# ------------------------------------------------------------------------------------------------
# generators
# ------------------------------------------------------------------------------------------------

def hdr(ident=0, flags=0, nq=0, na=0, nau=0, nad=0):
    return struct.pack('>HHHHHH', ident, flags, nq, na, nau, nad)


def lbl(s):
    b = s if isinstance(s, bytes) else s.encode()
    return bytes([len(b)]) + b


def ptr(target):
    return bytes([0xC0 | (target >> 8), target & 0xFF])


def rr(name_bytes, t, c, ttl, rdata):
    return name_bytes + struct.pack('>HHIH', t, c, ttl, len(rdata)) + rdata


def valid_messages(rng):
    """messages produced by the library encoder over a varied record mix (also the seeds for mutation)"""
    from zeroconf import DNSOutgoing, DNSQuestion
    out = []
    names = ['a.local.', 'x._t._tcp.local.', '_t._tcp.local.', 'Host.local.', 'h.local.', 'café._t._tcp.local.', 'a.b.c.d.e.local.',
             'z' * 63 + '.local.', '_services._dns-sd._udp.local.']
    for _ in range(40):
        flags = rng.choice([0, 0x8400, 0x0200, 0x8000])
        o = DNSOutgoing(flags, multicast=rng.random() < 0.8, id_=rng.choice([0, 1, 65535]))
        for _ in range(rng.randint(0, 3)):
            o.add_question(DNSQuestion(rng.choice(names), rng.choice([1, 12, 16, 28, 33, 47, 255]), rng.choice([1, 0x8001])))
        for sect in range(3):
            for _ in range(rng.randint(0, 4)):
                k = rng.choice(['A', 'AAAA', 'PTR', 'TXT', 'SRV', 'HINFO', 'NSEC', 'CNAME'])
                n = rng.choice(names)
                cls = rng.choice([1, 0x8001])
                ttl = rng.choice([0, 1, 120, 4500, 2 ** 31, 2 ** 32 - 1])
                d = {'A': cachesim.rec('KAddress', n, 1, cls, address=bytes(rng.randrange(256) for _ in range(4))),
                     'AAAA': cachesim.rec('KAddress', n, 28, cls, address=bytes(rng.randrange(256) for _ in range(16))),
                     'PTR': cachesim.rec('KPointer', n, 12, cls, alias=rng.choice(names)),
                     'CNAME': cachesim.rec('KPointer', n, 5, cls, alias=rng.choice(names)),
                     'TXT': cachesim.rec('KText', n, 16, cls, text=bytes(rng.randrange(256) for _ in range(rng.choice([0, 1, 5, 40])))),
                     'SRV': cachesim.rec('KService', n, 33, cls, priority=rng.randrange(3), weight=rng.randrange(3),
                                         port=rng.choice([0, 80, 65535]), server=rng.choice(names)),
                     'HINFO': cachesim.rec('KHinfo', n, 13, cls, cpu=rng.choice(['', 'x86', 'é']), os=rng.choice(['', 'linux'])),
                     'NSEC': cachesim.rec('KNsec', n, 47, cls, next_name=n, rdtypes=rng.choice([[1], [1, 28], [12, 16, 33, 47], [255]])),
                     }[k]
                d['ttl'] = ttl
                r = cachesim.mk(d)
                if sect == 0:
                    o.add_answer_at_time(r, 0)
                elif sect == 1 and k in ('PTR', 'CNAME'):
                    o.add_authorative_answer(r)
                else:
                    o.add_additional_answer(r)
        out += o.packets()
    return out


def mutate(rng, data):
    b = bytearray(data)
    k = rng.random()
    if not b:
        return bytes([rng.randrange(256)])
    if k < 0.3:
        for _ in range(rng.randint(1, 3)):
            i = rng.randrange(len(b))
            b[i] ^= 1 << rng.randrange(8)
    elif k < 0.45:
        del b[rng.randrange(len(b)):]
    elif k < 0.6:
        i = rng.randrange(len(b) + 1)
        b[i:i] = bytes(rng.choice([0, 1, 0x3f, 0x40, 0xc0, 0xff, 0x0c]) for _ in range(rng.randint(1, 3)))
    elif k < 0.75 and len(b) >= 12:
        i = rng.choice([4, 5, 6, 7, 8, 9, 10, 11])
        b[i] = rng.choice([0, 1, 2, 5, 255])
    elif k < 0.9:
        i = rng.randrange(len(b))
        b[i] = rng.choice([0, 1, 0x3f, 0x40, 0xbf, 0xc0, 0xc1, 0xff, len(b) & 0xff, 12])
    else:
        i = rng.randrange(len(b))
        del b[i:i + rng.randint(1, 4)]
    return bytes(b)


def pointer_graphs(rng, tier):
    """grammar-generated compression graphs: chains, cycles, self / forward references, pointers into rdata, to len, len+1"""
    out = []
    q = struct.pack('>HH', 12, 1)
    for k in [1, 2, 3, 126, 127, 128, 129, 130, 200] + ([600, 1200, 3000] if tier == 'thorough' else [1200]):
        # forward chain of k hops starting in the question name
        body = bytearray(ptr(18) + q)
        off = 18
        for _ in range(k - 1):
            body += ptr(off + 2)
            off += 2
        body += lbl('a') + b'\0'
        out.append(hdr(nq=1) + bytes(body))
        # backward chain: labels first, then k pointers each to the previous one, question name = last pointer
        # (datagram = header, then answer-less padding inside a TXT record holding the chain)
        chain = bytearray()
        base = 12 + len(lbl('n') + b'\0') + 10
        chain += lbl('a') + lbl('local') + b'\0'
        first = base
        prev = first
        for _ in range(k - 1):
            cur = base + len(chain)
            chain += ptr(prev)
            prev = cur
        txt = rr(lbl('n') + b'\0', 16, 1, 120, bytes(chain))
        last = rr(ptr(prev), 12, 1, 120, ptr(first))
        out.append(hdr(flags=0x8400, na=2) + txt + last)
    # cycles and self references
    out.append(hdr(nq=1) + ptr(12) + q)
    out.append(hdr(nq=1) + ptr(14) + ptr(12) + q)
    out.append(hdr(nq=1) + lbl('a') + ptr(12) + q)
    out.append(hdr(nq=2) + lbl('a') + ptr(20) + q + lbl('b') + ptr(12) + q)
    # pointer to len, len+1, into the header, to a label's middle
    d = hdr(nq=1) + ptr(18) + q
    out.append(d)
    out.append(hdr(nq=1) + ptr(19) + q)
    out.append(hdr(nq=1) + ptr(0) + q)
    out.append(hdr(nq=1) + ptr(5) + q)
    out.append(hdr(nq=1, na=1, flags=0) + lbl('abc') + b'\0' + q + rr(ptr(14), 12, 1, 1, ptr(12)))
    # pointer into rdata of an earlier record / rdlength lies
    a = rr(lbl('h') + b'\0', 16, 1, 120, lbl('inside') + b'\0')
    out.append(hdr(flags=0x8400, na=2) + a + rr(ptr(12 + 3 + 10), 1, 1, 120, b'\1\2\3\4'))
    out.append(hdr(flags=0x8400, na=2) + rr(lbl('h') + b'\0', 1, 1, 120, b'\1\2\3\4\5\6') + rr(lbl('g') + b'\0', 1, 1, 1, b'\1\2\3\4'))
    out.append(hdr(flags=0x8400, na=1) + lbl('h') + b'\0' + struct.pack('>HHIH', 1, 1, 120, 400) + b'\1\2\3\4')
    # the empty name reached through pointers is never memoised: many questions sharing one long chain to the root
    body = bytearray()
    tail_off = 12
    body += b'\0'
    prev = 12
    for _ in range(100):
        cur = 12 + len(body)
        body += ptr(prev)
        prev = cur
    nq = 150 if tier == 'quick' else 1400
    qs = b''.join(ptr(prev) + q for _ in range(nq))
    out.append(hdr(nq=nq, flags=0) + bytes(body) + qs)   # malformed as a message, but the decoder must stay within budget
    # names at the 253-character boundary and labels of 63/64 bytes
    for total in (252, 253, 254, 255):
        labels = []
        remaining = total - 1
        while remaining > 0:
            n = min(63, remaining - 1) if remaining > 1 else 0
            if n <= 0:
                break
            labels.append('x' * n)
            remaining -= n + 1
        name = b''.join(lbl(l) for l in labels) + b'\0'
        out.append(hdr(nq=1) + name + q)
    out.append(hdr(nq=1) + lbl('y' * 63) + b'\0' + q)
    out.append(hdr(nq=1) + bytes([64]) + b'y' * 64 + b'\0' + q)
    # an over-long name (rejected where it stands: the record is skipped by its rdlength) that a later owner name reaches through a
    # bare pointer - the labels of a rejected name are already in the decoder's name cache
    for total in (254, 260, 300):
        labels, remaining = [], total - 1
        while remaining > 1:
            n = min(63, remaining - 1)
            labels.append('z' * n)
            remaining -= n + 1
        long_name = b''.join(lbl(l) for l in labels) + b'\0'
        for rtype in (12, 5, 33, 47):
            rd = (struct.pack('>HHH', 0, 0, 80) if rtype == 33 else b'') + long_name + (b'\x00\x01\x40' if rtype == 47 else b'')
            first = rr(lbl('a') + b'\0', rtype, 1, 120, rd)
            rd_off = 12 + len(lbl('a') + b'\0') + 10 + (6 if rtype == 33 else 0)
            out.append(hdr(flags=0x8400, na=2) + first + rr(ptr(rd_off), 1, 1, 120, b'\1\2\3\4'))
            out.append(hdr(flags=0x8400, na=3) + first + rr(ptr(rd_off), 1, 1, 120, b'\1\2\3\4') + rr(lbl('b') + ptr(rd_off), 16, 1, 120, b'\0'))
    # NSEC type bitmaps: empty window blocks, several windows, windows out of order, a block running past the rdata
    for bm in (b'\x00\x00', b'\x00\x00\x00\x01\x40', b'\x00\x01\x40\x00\x00', b'\x01\x00\x00\x00', b'\x00\x01\x40\x01\x02\xff\x01',
               b'\x02\x01\x80\x00\x01\x40', b'\x00\x20' + b'\xff' * 32, b'\x00\x21' + b'\xff' * 33, b'\x00\x05\x40', b'\x00'):
        out.append(hdr(flags=0x8400, na=1) + rr(lbl('n') + b'\0', 47, 0x8001, 120, ptr(12) + bm))
        out.append(hdr(flags=0x8400, na=2) + rr(lbl('n') + b'\0', 47, 0x8001, 120, ptr(12) + bm) + rr(ptr(12), 1, 1, 120, b'\1\2\3\4'))
    # invalid UTF-8 inside labels (each byte becomes U+FFFD: text grows)
    out.append(hdr(nq=1) + lbl(b'\xff' * 30) + lbl('local') + b'\0' + q)
    out.append(hdr(nq=1) + lbl(b'\xe2\x82') + lbl(b'\xf4\x90\x80\x80') + b'\0' + q)
    return out


def small_alphabet(tier, rng):
    import itertools
    alpha = [0x00, 0x01, 0x3F, 0x40, 0xBF, 0xC0, 0xC1, 0xFF, 0x0C, 0x21]
    out = []
    h = hdr(nq=1)
    h2 = hdr(flags=0x8400, na=1)
    maxlen = 4 if tier == 'quick' else 5
    for k in range(0, maxlen + 1):
        for t in itertools.product(alpha, repeat=k):
            out.append(h + bytes(t))
            if k <= maxlen - 1:
                out.append(h2 + bytes(t))
    out = rng.sample(out, min(len(out), 4000 if tier == 'quick' else 40000))
    return out


def generate(ctx):
    rng = ctx.rng
    cases = []
    seeds = valid_messages(rng)
    for d in seeds:
        cases.append(('valid', d))
    n_mut = 3000 if ctx.tier == 'quick' else 20000
    for _ in range(n_mut):
        d = rng.choice(seeds)
        for _ in range(rng.choice([1, 1, 1, 2, 3])):
            d = mutate(rng, d)
        cases.append(('mutated', d))
    for d in pointer_graphs(rng, ctx.tier):
        cases.append(('graph', d))
    for _ in range(600 if ctx.tier == 'quick' else 8000):
        n = rng.choice([0, 1, 5, 11, 12, 13, 20, 40, 100])
        cases.append(('random', bytes(rng.randrange(256) for _ in range(n))))
    for d in small_alphabet(ctx.tier, rng):
        cases.append(('alphabet', d))
    # header prefix lengths 0..12 and a big one at the datagram limit
    for n in range(0, 13):
        cases.append(('header', bytes([1] * n)))
    big = hdr(flags=0x8400, na=1) + rr(lbl('big') + b'\0', 16, 1, 120, b'x' * (8966 - 12 - 5 - 10))
    cases.append(('limit', big))
    return cases


def run(ctx):
    ok = ctx.build(TARGETS)
    if ok:
        ok = ctx.assumptions()
    ctx.count_obligations('Props/C02.v')
    cases = generate(ctx)
    ctx.log(f"{len(cases)} datagrams")
    coq_cases, fails = [], []
    seen = set()
    strict_ok = 0
    for kind, data in cases:
        if data in seen:
            continue
        seen.add(data)
        scope = None
        v, info = observe(data, scope, count_calls=(kind in ('graph', 'limit') or len(coq_cases) % 10 == 0))
        why = oracle(data, info)
        if why:
            fails.append((kind, data, v, why))
        s = rfc1035.parse(data)
        if s is not None:
            strict_ok += 1
        big = len(data) > 3000
        if not big:      # very large datagrams are checked by the oracle only (vm_compute cost)
            coq_cases.append((f"({ctext(data)}, {copt(scope)})", v, (kind, data)))
        ctx.count(data.hex(), nontrivial=len(data) >= 12)
        ctx.hist('kind:' + kind)
        ctx.hist('result:' + ('escaped' if info['escaped'] else ('valid' if info['msg'].valid else 'invalid')))
    ctx.hist('strict-accepts', strict_ok)
    ctx.sample({'kind': cases[0][0], 'hex': cases[0][1].hex()})
    ctx.sample({'kind': 'graph', 'hex': [d for k, d in cases if k == 'graph'][2].hex()[:400]})
    ctx.cov['rule'] = ("datagrams: encoder output over all record kinds; 1-3 stacked mutations of them (bit flips, truncation, insertion, count and length "
                       "corruption, deletion); grammar-generated compression graphs (forward/backward chains of 1..1200+ hops, cycles, self, into header/rdata, "
                       "to len / len+1, unmemoised root chains, 252..255-char names, 63/64-byte labels, invalid UTF-8); random bytes; every string over a 10-byte "
                       "adversarial alphabet up to a bounded length after a fixed header; distinct = distinct byte strings; non-trivial = at least a full header")
    for kind, data, v, why in fails[:3]:
        ctx.violation({'kind': 'oracle', 'generator': kind, 'hex': data.hex(), 'why': why, 'observed': v if len(str(v)) < 3000 else None,
                       'broken': None if ok else ctx.build_msg})
    if not ok:
        if not ctx.violations:
            ctx.violation({'kind': 'broken-obligation', 'broken': ctx.build_msg}, no_input=True)
        return ctx.finish()
    mism = ctx.run_cases('Model.Base Model.PyRec Corr.C02', 'bytes * option Z', 'c02_run', [(c, o) for c, o, _ in coq_cases],
                         shard=max(50, len(coq_cases) // (3 * common.NPROC) + 1))
    ctx.cov['traces_validated_against_impl'] = len(coq_cases) - len(mism)
    # the Coq strict parser (Spec/Rfc1035.v, used by C02_strict / C01) against the independent Python one
    scases = []
    for _, _, (kind, data) in coq_cases:
        s = rfc1035.parse(data)
        scases.append((ctext(data), strict_val(s)))
    smism = ctx.run_cases('Model.Base Model.PyRec Corr.C02', 'bytes', 'c02_strict_run', scases,
                          shard=max(50, len(scases) // (3 * common.NPROC) + 1), tag='strict')
    ctx.cov['strict_parser_cross_checked'] = len(scases) - len(smism)
    for idx, model_out in smism[:2]:
        ctx.violation({'kind': 'correspondence', 'what': 'Spec.Rfc1035.strict_parse (Coq) disagrees with lib/rfc1035.py (the two strict parsers)',
                       'hex': coq_cases[idx][2][1].hex(), 'python': str(scases[idx][1])[:1500], 'coq': model_out[:1500]}, no_input=True)
    for idx, model_out in mism[:3]:
        kind, data = coq_cases[idx][2]
        ctx.violation({'kind': 'correspondence', 'what': 'Model.WireDec.parse disagrees with DNSIncoming', 'generator': kind,
                       'hex': data.hex(), 'implementation': coq_cases[idx][1], 'model': model_out[:3000]}, no_input=True)
    return ctx.finish()


def replay(ctx, path):
    r = json.load(open(path))
    if 'hex' not in r:
        return run(ctx)
    data = bytes.fromhex(r['hex'])
    v, info = observe(data, None, count_calls=True)
    why = oracle(data, info)
    print("replay:", f"still fails: {why}" if why else "passes")
    return 1 if why else 0
