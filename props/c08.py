"""C08 - withdrawn services stay withdrawn: complete goodbyes, no resurrection.
Model: coq/Model/Node.v (registry + responder + the two outgoing queues + goodbye tasks), coq/Model/Register.v unregister_service /
unregister_all; theorems coq/Props/C08.v.  Tie: label replay of a real instance (lib/nodesim.py) on the virtual-time simulator;
independent oracle on the transmitted datagrams."""
import json

from lib import common
from lib.nodesim import NodeRecorder
from lib.simloop import Sim
from props import c03, c09

TARGETS = ['Props/C08.vo', 'Corr/Node.vo']
T1, T2 = '_t._tcp.local.', '_u._udp.local.'


def gen_service(rng, idx, shared_host):
    t = rng.choice([T1, T1, T2])
    name = f"s{idx}.{t}"
    fam = rng.choice(['v4', 'v6', 'dual'])
    host = shared_host if shared_host and rng.random() < 0.6 else f"h{idx}.local."
    return dict(type=t, name=name, server=host, port=80 + idx, weight=0, priority=0, text=rng.choice([b'', b'\x03a=b']),
                host_ttl=120, other_ttl=4500,
                v4=[bytes([10, 0, 0, 1])] if fam in ('v4', 'dual') else [],
                v6=[bytes([0xfe, 0x80] + [0] * 13 + [1])] if fam in ('v6', 'dual') else [])


def gen_query(rng, svcs):
    s = rng.choice(svcs)
    qs = []
    for _ in range(rng.choice([1, 1, 2, 3])):
        kind = rng.choice(['ptr', 'ptr', 'srv', 'txt', 'a', 'a', 'any', 'enum'])
        qu = rng.random() < 0.3
        if kind == 'ptr':
            qs.append((s['type'], 12, qu))
        elif kind == 'srv':
            qs.append((s['name'], 33, qu))
        elif kind == 'txt':
            qs.append((s['name'], 16, qu))
        elif kind == 'a':
            qs.append((s['server'], rng.choice([1, 28]), qu))
        elif kind == 'any':
            qs.append((s['name'], 255, qu))
        else:
            qs.append(('_services._dns-sd._udp.local.', 12, qu))
        s = rng.choice(svcs)
    return dict(questions=qs, src=rng.choice(['10.0.0.7', '10.0.0.8', '10.0.0.9']), port=rng.choice([5353, 5353, 5353, 40000]),
                tc=rng.random() < 0.1)


def gen_scenario(rng):
    shared = rng.choice([None, 'hs.local.', 'hs.local.'])
    svcs = [gen_service(rng, i, shared) for i in range(rng.choice([1, 2, 2, 3]))]
    victim = rng.randrange(len(svcs))
    mode = rng.choice(['unregister', 'unregister', 'unregister', 'close'])
    # queries relative to the withdrawal instant: long before (so that answers were multicast recently), just before, during the goodbyes, after
    grid = [-1500, -1100, -900, -600, -499, -300, -130, -121, -60, -21, -1, 0, 1, 60, 124, 125, 126, 249, 250, 251, 400, 900, 1100]
    queries = sorted([(rng.choice(grid), gen_query(rng, svcs)) for _ in range(rng.choice([1, 2, 3, 4, 5]))], key=lambda q: q[0])
    return dict(svcs=svcs, victim=victim, mode=mode, queries=queries, loopback=rng.random() < 0.6,
                handle=rng.choice(['same', 'same', 'fresh']),       # unregister with the registered object or with a freshly built equal one
                update=rng.choice([None, None, None, 'victim', 'other']),   # an update_service (new object, new port and TXT) well before the queries
                update_host=rng.random() < 0.4,                              # ... that also changes the host name of the updated service
                second=rng.choice([None, 130, 400, 1500]) if len(svcs) > 1 and mode == 'unregister' else None,
                rereg=rng.random() < 0.3,
                mcast=[rng.choice([20, 70, 120]) for _ in range(40)], tcd=[rng.choice([400, 450, 500]) for _ in range(10)])


def vary(sc, rng):
    """same services and withdrawal, the queries re-timed on a fine grid (answers waiting in either queue when the goodbyes go out)"""
    import copy
    v = copy.deepcopy(sc)
    v['queries'] = sorted([(rng.randrange(-1500, 420, 5), q) for _, q in v['queries']] +
                          [(rng.randrange(-1500, 420, 5), gen_query(rng, v['svcs'])) for _ in range(rng.choice([0, 1, 2]))], key=lambda q: q[0])
    v['loopback'] = rng.random() < 0.75
    v['mcast'] = [rng.choice([20, 70, 120]) for _ in range(40)]
    return v


def corpus():
    """the schedules of the two repaired defects (repro/c08_resurrection.py, repro/c08_additional_resurrection.py)"""
    v4, v6 = [bytes([10, 0, 0, 1])], [bytes([0xfe, 0x80] + [0] * 13 + [1])]
    base = dict(weight=0, priority=0, text=b'', host_ttl=120, other_ttl=4500)
    s0 = dict(base, type=T1, name='s0.' + T1, server='hs.local.', port=80, v4=v4, v6=v6)
    s1 = dict(base, type=T1, name='s1.' + T1, server='hs.local.', port=81, v4=[], v6=v6)
    q = dict(questions=[('hs.local.', 1, False), (T1, 12, False)], src='10.0.0.7', port=5353, tc=False)
    common_ = dict(loopback=True, handle='same', update=None, mcast=[120] * 40, tcd=[400] * 10, mode='unregister')
    return [
        dict(common_, svcs=[dict(s0, server='h0.local.')], victim=0, queries=[(-310, dict(q, questions=[(T1, 12, False)])),
                                                                             (-10, dict(q, src='10.0.0.8', questions=[(T1, 12, False), ('zz.local.', 1, False)]))],
             second=None),
        dict(common_, svcs=[s0, s1], victim=0, queries=[(-600, q), (-300, dict(q, src='10.0.0.8'))], second=400),
        # two services on one host, one with an IPv4 address only, one dual: an AAAA question for the host is answered by the NSEC record of the
        # first (no additionals) and the AAAA record of the second (additional: the A record); held by the one-second protection while the
        # dual one and then the other are unregistered - the A record must not ride out as an additional after its goodbye
    ] + [
        dict(common_, svcs=[dict(s0, v6=[]), dict(s1, v4=v4)], victim=1, second=sec,
             queries=[(a, dict(q, questions=[('hs.local.', 28, False), ('zz.local.', 1, False)])),
                      (b, dict(q, src='10.0.0.8', questions=[('hs.local.', 28, False), ('zz.local.', 1, False)]))])
        for (a, b, sec) in ((-200, -50, 130), (-600, -300, 400), (-300, -100, 130))
    ]


def build_query(q, qid):
    from zeroconf import DNSOutgoing, DNSQuestion, const
    out = DNSOutgoing(const._FLAGS_QR_QUERY | (const._FLAGS_TC if q['tc'] else 0), multicast=q['port'] == 5353, id_=qid)
    for name, ty, qu in q['questions']:
        out.add_question(DNSQuestion(name, ty, const._CLASS_IN | (const._CLASS_UNIQUE if qu else 0)))
    return out.packets()[0]


def run_scenario(sc):
    import asyncio
    import copy
    sc = copy.deepcopy(sc)
    res = {'svcs': sc['svcs']}
    with Sim(loopback=sc['loopback']) as sim:
        holder = {}

        async def main():
            nr = NodeRecorder(sim).install()
            holder['nr'] = nr
            a = await sim.start_host('A', '10.0.0.1')
            nr.attach(a)
            sim.randoms['mcast_delay'] = list(sc['mcast'])
            sim.randoms['tc_delay'] = list(sc['tcd'])
            infos = [c03.mk_info(s) for s in sc['svcs']]
            for info in infos:
                rid, task = nr.register(info, cooperating_responders=True)
                out = await task
                assert out[0] == 'ok', out
            await sim.sleep(1000)
            if sc['update'] is not None:
                j = sc['victim'] if sc['update'] == 'victim' else (sc['victim'] + 1) % len(infos)
                sc['svcs'][j] = dict(sc['svcs'][j], port=sc['svcs'][j]['port'] + 1000, text=b'\x03u=1')
                if sc.get('update_host'):
                    # ... which also moves the service to another host name: a service that shared its host with the victim no longer does
                    sc['svcs'][j] = dict(sc['svcs'][j], server=f"hmoved{j}.local.")
                infos[j] = c03.mk_info(sc['svcs'][j])
                await (await a.zc.async_update_service(infos[j]))
            await sim.sleep(5000)
            if sc['handle'] == 'fresh':
                infos = [c03.mk_info(s) for s in sc['svcs']]
            tu = sim.now + 2000
            res['tu'] = tu

            async def inject():
                for k, (dt, q) in enumerate(sc['queries']):
                    await sim.sleep_until(tu + dt)
                    sim.net.inject(a, build_query(q, 100 + k), (q['src'], q['port']), contain=True)
            inj = asyncio.ensure_future(inject())
            await sim.sleep_until(tu)
            res['registered_before'] = sorted(a.zc.registry._services)
            async def unregister(info, what):
                # an exception out of the withdrawal of a registered service is an observation (and a violation), not a crash of the harness
                try:
                    await (await a.zc.async_unregister_service(info))
                except Exception as e:        # noqa: BLE001
                    res.setdefault('api_error', f"{what} raised {type(e).__name__}: {e}")
            if sc['mode'] == 'unregister':
                await unregister(infos[sc['victim']], 'async_unregister_service of the registered victim')
                res['t_done'] = sim.now
                if sc['second'] is not None:
                    await sim.sleep_until(tu + sc['second'])
                    other = (sc['victim'] + 1) % len(infos)
                    res['tu2'] = sim.now
                    await unregister(infos[other], 'async_unregister_service of the second registered service')
                    res['t_done2'] = sim.now
                if sc.get('rereg') and sc['second'] is None:
                    # the application renames the object it has just withdrawn and registers it again (the name setter, as a rename after a
                    # conflict does): what is announced and answered from now on belongs to the new name only
                    await sim.sleep(1200)
                    info = infos[sc['victim']]
                    info.name = 'again-' + info.name
                    res['t_rereg'] = sim.now
                    rid, task = nr.register(info, cooperating_responders=True)
                    await task
            else:
                await a.azc.async_close()
                res['t_done'] = sim.now
            await inj
            await sim.sleep(4000)
            res['t_end'] = sim.now
            nr.uninstall()
            if sc['mode'] != 'close':
                await a.azc.async_close()
        try:
            sim.run(main())
        finally:
            if 'nr' in holder:
                holder['nr'].uninstall()
        res['escaped'] = list(sim.loop.escaped)
        res['wire'] = [(ms, dest, data) for (ms, host, dest, data, idx) in sim.net.log if host == 'A' and ms <= res.get('t_end', 1 << 60)]
    res['labels'], res['obs'] = holder['nr'].labels, holder['nr'].obs
    return res


def ident(r):
    """identity of a record on the wire: name (case-insensitive), type, class, rdata"""
    g = lambda a, d: getattr(r, a, d)  # noqa: E731
    return (r.name.lower(), r.type, r.class_, bytes(g('address', b'')), g('alias', '').lower(), bytes(g('text', b'')), g('port', 0), g('server', '').lower(),
            tuple(sorted(g('rdtypes', []))))


def own_idents(s):
    o = c03.own_records(s)
    from lib.cachesim import mk
    recs = [o['ptr'], o['srv'], o['txt']]
    host = o['addrs'] + ([o['nsec']] if o['nsec'] else [])
    return [ident(mk(r)) for r in recs], [ident(mk(r)) for r in host]


def oracle(sc, res):
    if res['escaped']:
        return f"exception in the event loop: {res['escaped'][0]}"
    if res.get('api_error'):
        return res['api_error'] + " - the service is not withdrawn"
    tu = res['tu']
    withdrawals = []      # (service, start, end of goodbye sequence, all services withdrawn at once?)
    if sc['mode'] == 'unregister':
        withdrawals.append((sc['victim'], tu, res['t_done']))
        if sc['second'] is not None:
            withdrawals.append(((sc['victim'] + 1) % len(sc['svcs']), res['tu2'], res['t_done2']))
    else:
        for i in range(len(sc['svcs'])):
            withdrawals.append((i, tu, res['t_done']))
    gone = set()
    parsed = [(ms, dest, c09.parse(data)) for ms, dest, data in res['wire']]
    for (i, start, end) in withdrawals:
        s = res['svcs'][i]
        core, host = own_idents(s)
        if sc['mode'] == 'close':
            with_host = True
        else:
            still = [x for j, x in enumerate(res['svcs']) if j != i and j not in gone]
            with_host = not any(x['server'].lower() == s['server'].lower() for x in still)
        gone.add(i)
        want = core + (host if with_host else [])
        # --- three goodbyes carrying every record with TTL 0 ---
        byes = []
        for ms, dest, m in parsed:
            if start <= ms <= end and not m.is_query() and dest is not None and dest[0] in ('224.0.0.251', 'ff02::fb'):
                zero = {ident(r) for r in m.answers() if r.ttl == 0}
                if all(w in zero for w in want):
                    byes.append(ms)
                elif any(w in zero for w in core):
                    return f"goodbye at +{ms - tu} for {s['name']} is incomplete: missing {[w for w in want if w not in zero][:3]}"
        if len(byes) != 3:
            return f"{len(byes)} complete goodbyes for {s['name']} (expected 3) at {[b - tu for b in byes]}"
        if byes[1] - byes[0] != 125 or byes[2] - byes[1] != 125:
            return f"goodbyes for {s['name']} at {[b - tu for b in byes]} (+ms): not 125 ms apart"
        if not with_host:
            for ms, dest, m in parsed:
                if start <= ms <= end and not m.is_query():
                    zero = {ident(r) for r in m.answers() if r.ttl == 0}
                    if all(w in zero for w in core) and any(h in zero for h in host):      # this service's own goodbye message
                        return f"address/NSEC record of a host still used by another registered service was withdrawn at +{ms - tu}"
        # --- no resurrection: once the sequence has completed, none of those records is transmitted with a non-zero TTL ---
        for ms, dest, m in parsed:
            if ms > byes[2] and not m.is_query():
                for r in m.answers():
                    if 't_rereg' in res and ms >= res['t_rereg'] and r.name.lower() == s['server'].lower():
                        continue        # (the host's address records belong to the re-registered service again)
                    if r.ttl > 0 and ident(r) in want:
                        return (f"{s['name']}: record {r} transmitted with TTL {r.ttl} at +{ms - tu}, after the goodbye sequence completed at +{byes[2] - tu}")
    return None


def run(ctx):
    ok = ctx.build(TARGETS)
    if ok:
        ok = ctx.assumptions()
    ctx.count_obligations('Props/C08.v')
    rng = ctx.rng
    n = 300 if ctx.tier == 'quick' else 4000
    scenarios = corpus() + [gen_scenario(rng) for _ in range(n)]
    for sc, res, why in c09.check_scenarios(ctx, scenarios, run_scenario, oracle, 'c08', ''):
        ctx.hist('mode:' + sc['mode'])
        ctx.hist('loopback' if sc['loopback'] else 'no-loopback')
        ctx.hist(f"services:{len(sc['svcs'])}")
        ctx.hist('shared-host' if len({s['server'] for s in sc['svcs']}) < len(sc['svcs']) else 'own-hosts')
        pend = [lab for lab in res['labels'] if lab.startswith('LReady') and int(lab.split()[2].strip('()')) > res['tu']]
        ctx.hist('queue-fired-after-withdrawal' if pend else 'no-queue-activity-after')
    ctx.sample(c09.jsonable(scenarios[0]))
    ctx.cov['rule'] = ("one instance with 1-3 registered services (own or shared host names, v4/v6/dual) on the virtual-time simulator, with and without "
                       "multicast loopback (own answers seen in the cache: 1 s flood-protection path); 1-5 queries (1-3 questions PTR/SRV/TXT/A/AAAA/ANY/"
                       "enumeration, QM/QU, mDNS and legacy source ports, TC-deferred) on a grid from 1.5 s before to 1.1 s after the withdrawal; the victim is "
                       "unregistered (optionally a second service later) or the instance closed; 4 s of observation; distinct = distinct scenarios")
    c09.replay_model(ctx, ok, 'Model.Node (withdrawal) disagrees with the implementation', vary=vary)
    return ctx.finish()


def replay(ctx, path):
    from props.c05 import unjson
    r = json.load(open(path))
    if 'scenario' not in r:
        return run(ctx)
    sc = unjson(r['scenario'])
    sc['queries'] = [tuple(q) for q in sc['queries']]
    for _, q in sc['queries']:
        q['questions'] = [tuple(x) for x in q['questions']]
    res = run_scenario(sc)
    why = oracle(sc, res)
    print("replay:", f"still fails: {why}" if why else "passes")
    return 1 if why else 0
