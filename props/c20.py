"""C20 - record identity. Theorems: coq/Props/C20.v about the definitions regenerated from _dns.py.
Correspondence: exhaustive over all ordered pairs of a bounded vocabulary of record / question objects."""
import json

from lib import common
from lib.common import cz, ctext, copt, czlist, cbool

TARGETS = ['Props/C20.vo', 'Corr/C20.vo']

KINDS = ['KQuestion', 'KAddress', 'KHinfo', 'KPointer', 'KText', 'KService', 'KNsec']


def base(kind, **kw):
    d = dict(kind=kind, name='a.local.', type=1, cls=1, ttl=120, created=1000,
             address=b'', scope_id=None, cpu='', os='', alias='', text=b'',
             priority=0, weight=0, port=0, server='', next_name='', rdtypes=[])
    d.update(kw)
    return d


def vocabulary(tier):
    names = ['a.local.', 'A.local.', 'A.LOCAL.', 'b.local.', 'café.local.']
    if tier == 'quick':
        names = ['a.local.', 'A.Local.', 'b.local.']
    out = []
    protos = [
        base('KQuestion', type=12),
        base('KQuestion', type=255),
        base('KAddress', type=1, address=b'\x01\x02\x03\x04'),
        base('KAddress', type=28, address=bytes(range(16)), scope_id=None),
        base('KHinfo', type=13, cpu='cpu', os='os'),
        base('KPointer', type=12, alias='x._t._tcp.local.'),
        base('KPointer', type=5, alias='x._t._tcp.local.'),
        base('KText', type=16, text=b'\x03a=b'),
        base('KService', type=33, priority=0, weight=0, port=80, server='h.local.'),
        base('KNsec', type=47, next_name='a.local.', rdtypes=[1, 28]),
    ]
    variants = {
        'KQuestion': [],
        'KAddress': [dict(address=b'\x01\x02\x03\x05'), dict(scope_id=1), dict(scope_id=2), dict(scope_id=0),
                     dict(address=b''), dict(address=b'\xa9\xfe\x01\x02')],       # (the last: an IPv4 link-local address)
        'KHinfo': [dict(cpu='CPU'), dict(os='OS'), dict(cpu='os', os='cpu'), dict(cpu='')],
        'KPointer': [dict(alias='X._T._TCP.local.'), dict(alias='y._t._tcp.local.'), dict(alias='')],
        'KText': [dict(text=b'\x03a=c'), dict(text=b''), dict(text=b'x._t._tcp.local.')],
        'KService': [dict(server='H.LOCAL.'), dict(server='g.local.'), dict(priority=1), dict(weight=1),
                     dict(port=81), dict(priority=80, port=0)],
        'KNsec': [dict(next_name='A.local.'), dict(rdtypes=[28, 1]), dict(rdtypes=[1]), dict(rdtypes=[1, 1, 28]),
                  dict(rdtypes=[])],
    }
    classes = [1, 0x8001, 3] if tier == 'thorough' else [1, 0x8001]
    for p in protos:
        ps = [p] + [dict(p, **v) for v in variants[p['kind']]]
        for q in ps:
            for n in names:
                for c in classes:
                    out.append(dict(q, name=n, cls=c))
            # lifetime variants on one spelling
            out.append(dict(q, ttl=0, created=2000))
            out.append(dict(q, ttl=4500))
            if tier == 'thorough':
                out.append(dict(q, type=q['type'] + 1))
    # text that collides across kinds: TXT bytes equal to a PTR alias / HINFO strings
    out.append(base('KText', type=12, text=b'x._t._tcp.local.'))
    out.append(base('KPointer', type=16, alias='\x03a=b'))
    return out


def mk(d):
    from zeroconf import DNSAddress, DNSHinfo, DNSNsec, DNSPointer, DNSQuestion, DNSService, DNSText
    k = d['kind']
    if k == 'KQuestion':
        return DNSQuestion(d['name'], d['type'], d['cls'])
    if k == 'KAddress':
        return DNSAddress(d['name'], d['type'], d['cls'], d['ttl'], d['address'], scope_id=d['scope_id'], created=d['created'])
    if k == 'KHinfo':
        return DNSHinfo(d['name'], d['type'], d['cls'], d['ttl'], d['cpu'], d['os'], created=d['created'])
    if k == 'KPointer':
        return DNSPointer(d['name'], d['type'], d['cls'], d['ttl'], d['alias'], created=d['created'])
    if k == 'KText':
        return DNSText(d['name'], d['type'], d['cls'], d['ttl'], d['text'], created=d['created'])
    if k == 'KService':
        return DNSService(d['name'], d['type'], d['cls'], d['ttl'], d['priority'], d['weight'], d['port'], d['server'], created=d['created'])
    if k == 'KNsec':
        return DNSNsec(d['name'], d['type'], d['cls'], d['ttl'], d['next_name'], list(d['rdtypes']), created=d['created'])
    raise ValueError(k)


def coq_rec(d):
    return ("{| p_kind := %s; p_name := %s; p_type_ := %s; p_class_ := %s; p_ttl := %s; p_created := %s; "
            "p_address := %s; p_scope_id := %s; p_cpu := %s; p_os := %s; p_alias := %s; p_text := %s; "
            "p_priority := %s; p_weight := %s; p_port := %s; p_server := %s; p_next_name := %s; p_rdtypes := %s |}") % (
        d['kind'], ctext(d['name']), cz(d['type']), cz(d['cls']), cz(d['ttl']), cz(d['created']),
        ctext(d['address']), copt(d['scope_id']), ctext(d['cpu']), ctext(d['os']), ctext(d['alias']), ctext(d['text']),
        cz(d['priority']), cz(d['weight']), cz(d['port']), ctext(d['server']), ctext(d['next_name']), czlist(d['rdtypes']))


def py_ident(d):
    """The property text, independently of the library: what makes two records the same record."""
    k = d['kind']
    common_ = (k, d['name'].lower(), d['type'], d['cls'] & 0x7FFF)
    if k == 'KQuestion':
        return common_
    if k == 'KAddress':
        return common_ + (bytes(d['address']), d['scope_id'])
    if k == 'KHinfo':
        return common_ + (d['cpu'], d['os'])
    if k == 'KPointer':
        return common_ + (d['alias'].lower(),)
    if k == 'KText':
        return common_ + (bytes(d['text']),)
    if k == 'KService':
        return common_ + (d['priority'], d['weight'], d['port'], d['server'].lower())
    if k == 'KNsec':
        return common_ + (d['next_name'], tuple(sorted(d['rdtypes'])))


def jsonable(d):
    return {k: (v.hex() if isinstance(v, (bytes, bytearray)) else v) for k, v in d.items()}


def run(ctx):
    from zeroconf._dns import DNSRRSet
    ok = ctx.build(TARGETS)
    if ok:
        ok = ctx.assumptions()
    ctx.count_obligations('Props/C20.v')

    vocab = vocabulary(ctx.tier)
    for d in vocab:
        assert d['name'].lower() == ''.join(chr(ord(c) + 32) if 'A' <= c <= 'Z' else c for c in d['name'])
    objs = [mk(d) for d in vocab]
    idents = [py_ident(d) for d in vocab]
    n = len(vocab)
    ctx.log(f"vocabulary {n} objects, {n * n} ordered pairs")
    rows = []      # (i, hrow) ; expected rows
    expected = []
    fails = []
    for i, a in enumerate(objs):
        hrow, erow = [], []
        ka = vocab[i]['kind']
        for j, b in enumerate(objs):
            kb = vocab[j]['kind']
            eq = bool(a == b)
            h = hash(a) == hash(b)
            member = a in {b}
            if ka == 'KQuestion' or kb == 'KQuestion':
                sup = False
            else:
                sup = bool(DNSRRSet([b]).suppresses(a))
            hrow.append(h)
            erow.append([eq, True, member, sup])
            # the property's own oracle on the implementation
            same = idents[i] == idents[j]
            why = None
            if eq != same:
                why = f"a == b is {eq} but identities {'agree' if same else 'differ'}"
            elif eq and not h:
                why = "equal records with different hashes"
            elif member != same:
                why = f"set membership {member} disagrees with identity"
            elif ka != 'KQuestion' and kb != 'KQuestion' and sup != (same and b.ttl > a.ttl / 2):
                why = f"DNSRRSet.suppresses is {sup}, identity same={same}, ttl other={b.ttl} record={a.ttl}"
            if why and len(fails) < 50:
                fails.append((i, j, why))
            ctx.count((i, j), nontrivial=True)
            ctx.hist(f"{ka[1:]}x{kb[1:]}:{'eq' if eq else 'ne'}")
        rows.append((i, hrow))
        expected.append(erow)
    ctx.cov['rule'] = ("exhaustive: every ordered pair (a, b) of the bounded vocabulary (7 kinds x name spellings x classes "
                       "x one-field rdata variants x lifetime variants); per pair: a == b, hash(a) == hash(b), a in {b}, "
                       "DNSRRSet([b]).suppresses(a); distinct = distinct ordered pairs")
    ctx.cov['exhaustive'] = True
    ctx.sample({'a': jsonable(vocab[5]), 'b': jsonable(vocab[6]), 'observed[eq,hash-consistent,member,suppresses]': expected[5][6]})
    ctx.sample({'a': jsonable(vocab[-1]), 'b': jsonable(vocab[-2]), 'observed': expected[-1][-2]})

    # the copies the cache and the known-answer logic actually compare are DECODED from datagrams: the wire copy of a record, read on a socket
    # without scope and on an IPv6 socket with scope 7, must be the same record as the one that was sent - the scope of the receiving socket
    # belongs to the rdata of AAAA records only
    from zeroconf import DNSOutgoing
    from zeroconf._protocol.incoming import DNSIncoming
    wire_fails = []
    done = set()
    for i, d in enumerate(vocab):
        if d['kind'] == 'KQuestion' or idents[i] in done:
            continue
        namefield = {'KPointer': 'alias', 'KService': 'server', 'KNsec': 'next_name'}.get(d['kind'])
        if namefield and not d[namefield].endswith('.'):
            continue            # (the vocabulary's degenerate empty targets have no faithful wire form: names are fully qualified, C01)
        canon = {'KAddress': (1, 28), 'KHinfo': (13,), 'KPointer': (12, 5), 'KText': (16,), 'KService': (33,), 'KNsec': (47,)}[d['kind']]
        if d['type'] not in canon or (d['kind'] == 'KAddress' and len(d['address']) != (4 if d['type'] == 1 else 16)):
            continue            # (a TXT object typed PTR and the like: the decoder goes by the type field)
        if d['kind'] == 'KNsec' and len(set(d['rdtypes'])) != len(d['rdtypes']):
            continue            # (a type listed twice has no wire form of its own: the bitmap is a set)
        done.add(idents[i])
        out = DNSOutgoing(0x8400)
        out.add_answer_at_time(objs[i], 0)
        try:
            data = out.packets()[0]
        except ValueError:
            continue            # (an NSEC record without types has no wire form)
        for sc_ in (None, 7):
            got = DNSIncoming(data, scope_id=sc_).answers()
            want = mk(dict(d, scope_id=sc_ if d['type'] == 28 and d['kind'] == 'KAddress' else None))
            ctx.count(('wire', i, sc_), nontrivial=True)
            ctx.hist('wire-copy:' + d['kind'][1:])
            if len(got) != 1:
                wire_fails.append((i, sc_, f"decoding the datagram gave {len(got)} records"))
            elif not (got[0] == want and hash(got[0]) == hash(want) and got[0] in {want}):
                wire_fails.append((i, sc_, f"the wire copy read with socket scope {sc_} is {got[0]!r}, which is not the same record as {want!r}"))
    # "the same record - for the cache": whether an arriving record meets its cached copy must not depend on the copy's TTL or age. A copy that has
    # run out but has not been reaped yet is still the cached copy of that record (the listeners are told (new, old=copy), and there is one
    # entry afterwards), at every age from 0 to just before the 10 s cleanup
    from lib.fakemsg import FakeIncoming
    from zeroconf._cache import DNSCache
    from zeroconf._handlers.record_manager import RecordManager
    from zeroconf._updates import RecordUpdateListener
    cache_fails = []
    seen_ids = set()
    for i, d in enumerate(vocab):
        if d['kind'] in ('KQuestion', 'KPointer') or idents[i] in seen_ids or not d['ttl']:
            continue        # (pointer TTLs are raised to a floor on the way in: C06)
        seen_ids.add(idents[i])
        for age in (0, d['ttl'] * 500, d['ttl'] * 1000 - 1, d['ttl'] * 1000, d['ttl'] * 1000 + 1, d['ttl'] * 1000 + 9000):
            class ZC:
                pass
            zc = ZC()
            zc.cache = DNSCache()
            zc.async_notify_all = lambda: None
            rm = RecordManager(zc)
            got = []

            class L(RecordUpdateListener):
                def async_update_records(self, zc_, now, records):
                    got.extend(records)
            rm.async_add_listener(L(), None)
            first, second = mk(dict(d, created=1000)), mk(dict(d, created=1000 + age, cls=d['cls'] & 0x7FFF))
            rm.async_updates_from_response(FakeIncoming(answers=[first], now=1000, flags=0x8400))
            del got[:]
            rm.async_updates_from_response(FakeIncoming(answers=[second], now=1000 + age, flags=0x8400))
            ctx.count(('cache', i, age), nontrivial=True)
            ctx.hist('cached-copy:' + ('live' if age < d['ttl'] * 1000 else 'expired-unreaped'))
            olds = [u.old for u in got if u.new == second]
            entries = [r for r in zc.cache.async_entries_with_name(d['name']) if r == second]
            if len(olds) != 1 or olds[0] is None or len(entries) != 1:
                cache_fails.append((i, age, f"an equal record arriving {age} ms after its cached copy (TTL {d['ttl']} s) was handed to the listeners with "
                                            f"old={olds}, and the cache then holds {len(entries)} entries for it"))
    # ... and the records a ServiceInfo stands for are compared with their wire and cache copies too: an A or AAAA record built for a service
    # (with or without interface_index) is the same record as the plain one with that name, type, class and address
    from zeroconf import DNSAddress, ServiceInfo
    v4a, v6a = b'\x0a\x00\x00\x01', bytes([0xfe, 0x80] + [0] * 13 + [1])
    for idx_ in (None, 3):
        info_ = ServiceInfo('_t._tcp.local.', 'x._t._tcp.local.', port=80, addresses=[v4a, v6a], server='h.local.', interface_index=idx_)
        for r_ in info_.dns_addresses():
            plain = DNSAddress('h.local.', r_.type, 0x8001, r_.ttl, r_.address)
            ctx.count(('info-record', idx_, r_.type), nontrivial=True)
            if not (r_ == plain and hash(r_) == hash(plain) and r_ in {plain}):
                cache_fails.append((0, 0, f"ServiceInfo(interface_index={idx_}) stands for {r_!r}, which is not the same record as {plain!r} "
                                          f"(its copy in every cache and known-answer list)"))
    for i, age, why in cache_fails[:3]:
        ctx.violation({'kind': 'oracle', 'a': jsonable(vocab[i]), 'age_ms': age, 'why': why, 'broken': ctx.build_msg if not ok else None})
    for i, sc_, why in wire_fails[:3]:
        ctx.violation({'kind': 'oracle', 'a': jsonable(vocab[i]), 'socket_scope': sc_, 'why': why, 'broken': ctx.build_msg if not ok else None})
    for i, j, why in fails[:3]:
        ctx.violation({'kind': 'oracle', 'a': jsonable(vocab[i]), 'b': jsonable(vocab[j]), 'why': why,
                       'broken': ctx.build_msg if not ok else None})
    if not ok:
        if not ctx.violations:
            ctx.violation({'kind': 'broken-obligation', 'broken': ctx.build_msg}, no_input=True)
        return ctx.finish()

    preamble = "Definition vocab : list pyrec := [\n" + ";\n".join(coq_rec(d) for d in vocab) + "\n].\n" \
               "Definition run_row := c20_row vocab.\n"
    cases = [(f"({cz(i)}, {common.clist(cbool(h) for h in hrow)})", erow) for (i, hrow), erow in zip(rows, expected)]
    shard = max(1, (len(cases) + common.NPROC - 1) // common.NPROC)
    mism = ctx.run_cases('Model.Base Model.PyRec Corr.C20', 'Z * list bool', 'run_row', cases, shard=shard,
                         preamble=preamble)
    ctx.cov['traces_validated_against_impl'] = n * n if not mism else 0
    for idx, model_out in mism[:3]:
        # locate the first differing column
        ctx.violation({'kind': 'correspondence', 'what': 'Corr.C20.c20_row (regenerated gen_eq/gen_hashkey/rrset) disagrees with the implementation',
                       'row': jsonable(vocab[idx]), 'implementation_row': expected[idx], 'model_row': model_out[:4000]},
                      no_input=True)
    return ctx.finish()


def replay(ctx, path):
    from zeroconf._dns import DNSRRSet
    r = json.load(open(path))
    if 'a' not in r:
        print("replay: this file names a broken obligation, re-run the check itself")
        return run(ctx)

    def unj(d):
        d = dict(d)
        for k in ('address', 'text'):
            d[k] = bytes.fromhex(d[k])
        return d
    a, b = unj(r['a']), unj(r['b'])
    oa, ob = mk(a), mk(b)
    same = py_ident(a) == py_ident(b)
    print("a == b:", oa == ob, " identities agree:", same, " hash equal:", hash(oa) == hash(ob))
    bad = (oa == ob) != same or ((oa == ob) and hash(oa) != hash(ob))
    if a['kind'] != 'KQuestion' and b['kind'] != 'KQuestion':
        sup = DNSRRSet([ob]).suppresses(oa)
        bad = bad or sup != (same and ob.ttl > oa.ttl / 2)
    print("replay:", "still fails" if bad else "passes")
    return 1 if bad else 0
