"""C03 - responder answers exactly what is registered, minus what the querier knows.
Model: coq/Model/Respond.v; theorems coq/Props/C03.v; correspondence through the real ServiceRegistry + QueryHandler.async_response."""
import json

from lib.fakemsg import FakeIncoming
from lib import cachesim, common
from lib.cachesim import rec, coq_rec
from lib.common import cz, ctext, cbool, clist
from props.c20 import py_ident

TARGETS = ['Props/C03.vo', 'Corr/C03.vo']
SETTAG = -7777
ENUM = '_services._dns-sd._udp.local.'


def vrec0(o):
    """records a ServiceInfo generates are stamped with the real clock (created=0.0 is falsy): not compared"""
    g = lambda a, d: getattr(o, a, d)  # noqa: E731
    return [cachesim.KCODE[type(o).__name__], o.name, o.type, o.class_, bool(o.unique), int(o.ttl), 0,
            [bytes(g('address', b'')), None, g('cpu', ''), g('os', ''), g('alias', ''), bytes(g('text', b'')), g('priority', 0),
             g('weight', 0), g('port', 0), g('server', ''), g('next_name', ''), list(g('rdtypes', []))]]


def vrec_ident(o):
    g = lambda a, d: getattr(o, a, d)  # noqa: E731
    return [cachesim.KCODE[type(o).__name__], o.name.lower(), o.type, o.class_, bool(o.unique), int(o.ttl),
            [bytes(g('address', b'')), g('alias', '').lower(), bytes(g('text', b'')), g('priority', 0), g('weight', 0), g('port', 0),
             g('server', '').lower(), g('next_name', ''), list(g('rdtypes', []))]]


def vset(items):
    return [SETTAG, list(items)]


# ------------------------------------------------------------------------------------------------
# generators
# ------------------------------------------------------------------------------------------------

TYPES = ['_t._tcp.local.', '_u._udp.local.', '_P._sub._t._tcp.local.', '_T._tcp.local.']
HOSTS = ['h.local.', 'H.Local.', 'g.local.']
V4 = [bytes([10, 0, 0, i]) for i in (1, 2, 3)]
V6 = [bytes([0xfe, 0x80] + [0] * 13 + [i]) for i in (1, 2)]


HOST_TTL = {'h.local.': 120, 'g.local.': 60}


def fix_host_ttl(s):
    # address records are shared by services on one host: equal records must carry equal TTLs to be comparable
    s['host_ttl'] = HOST_TTL[s['server'].lower()]
    return s


def gen_service(rng, idx=None):
    t = rng.choice(TYPES)
    inst = rng.choice(['x', 'X', 'y', 'z'])
    name = f"{inst}.{t}"
    fam = rng.choice(['v4', 'v6', 'dual', 'dual', 'none'])
    v4 = rng.sample(V4, rng.randint(1, 2)) if fam in ('v4', 'dual') else []
    v6 = rng.sample(V6, rng.randint(1, 2)) if fam in ('v6', 'dual') else []
    return fix_host_ttl(dict(type=t, name=name, server=rng.choice(HOSTS), port=rng.choice([80, 81, 8080]), weight=rng.choice([0, 1]),
                priority=rng.choice([0, 5]), text=rng.choice([b'', b'\x03a=b', b'\x01x']),
                host_ttl=None, other_ttl=rng.choice([4500, 4500, 100, 7]), v4=v4, v6=v6))


def own_records(s):
    """the records a registered service stands for (for known answers, cache sightings and the oracle)"""
    out = {
        'ptr': rec('KPointer', s['type'], 12, 1, alias=s['name'], ttl=s['other_ttl']),
        'srv': rec('KService', s['name'], 33, 0x8001, priority=s['priority'], weight=s['weight'], port=s['port'], server=s['server'], ttl=s['host_ttl']),
        'txt': rec('KText', s['name'], 16, 0x8001, text=s['text'], ttl=s['other_ttl']),
        'addrs': [rec('KAddress', s['server'], 1, 0x8001, address=a, ttl=s['host_ttl']) for a in s['v4']]
        + [rec('KAddress', s['server'], 28, 0x8001, address=a, ttl=s['host_ttl']) for a in s['v6']],
    }
    missing = [t for t, l in ((1, s['v4']), (28, s['v6'])) if not l]
    out['nsec'] = rec('KNsec', s['name'], 47, 0x8001, next_name=s['name'], rdtypes=missing, ttl=s['host_ttl']) if missing else None
    return out


def gen_case(rng):
    if rng.random() < 0.12:
        return gen_solo_case(rng)
    ops = []
    live = {}
    for _ in range(rng.randint(0, 6)):
        k = rng.random()
        if k < 0.55 or not live:
            s = gen_service(rng)
            ops.append(('add', s))
            live.setdefault(s['name'].lower(), s)
        elif k < 0.8:
            key = rng.choice(sorted(live))
            old = live[key]
            s = dict(old)
            how = rng.choice(['new', 'inplace'])
            for f in rng.sample(['port', 'text', 'v4', 'v6', 'server', 'other_ttl', 'type'], rng.randint(1, 3)):
                if f == 'type' and how == 'inplace':
                    continue
                if f == 'type':
                    # the instance name stays; the type may change only to one the name still belongs to: its base type or a subtype of it (`_P._sub.<base>`), which is how subtypes are registered
                    base = old['name'].split('.', 1)[1]
                    if '._sub.' in base.lower():
                        continue
                    s['type'] = rng.choice([base, '_P._sub.' + base, '_Q._sub.' + base])   # (ServiceInfo demands the exact spelling of the base type)
                    continue
                if f == 'server' and how == 'inplace':
                    continue   # editing server/server_key of a registered object in place breaks registry._remove (KeyError): not generated
                s[f] = gen_service(rng)[f]
            fix_host_ttl(s)
            ops.append(('update-' + how, s))
            live[key] = s
        else:
            key = rng.choice(sorted(live))
            nm = live.pop(key)['name']
            ops.append(('remove', rng.choice([nm, nm.upper().replace('.LOCAL.', '.local.') if rng.random() < 0.3 else nm])))
    # what is registered at the end (the oracle's view)
    services = list(live.values())
    # questions
    qnames = [ENUM, ENUM.upper()] + TYPES + ['_t._TCP.local.', '_zz._tcp.local.'] + HOSTS + ['nohost.local.']
    for s in services:
        qnames += [s['name'], s['name'].upper().replace('.LOCAL.', '.local.')]
    msgs = []
    now = 100000
    nmsg = rng.choice([1, 1, 1, 2])
    for mi in range(nmsg):
        qs = []
        for _ in range(rng.randint(1, 3)):
            qs.append(rec('KQuestion', rng.choice(qnames), rng.choice([12, 12, 1, 28, 33, 16, 255, 47, 99]), rng.choice([1, 1, 0x8001])))
        known = []
        if services and rng.random() < 0.6:
            for _ in range(rng.randint(1, 4)):
                s = rng.choice(services)
                o = own_records(s)
                r = dict(rng.choice([o['ptr'], o['srv'], o['txt']] + o['addrs'] + ([o['nsec']] if o['nsec'] and rng.random() < 0.2 else [])
                                    + [rec('KPointer', ENUM, 12, 1, alias=s['type'], ttl=4500)]))
                full = r['ttl']
                r['ttl'] = rng.choice([full // 2, full // 2 + 1, max(0, full // 2 - 1), full, 0, (full + 1) // 2])
                if rng.random() < 0.2:
                    r['name'] = r['name'].upper().replace('.LOCAL.', '.local.')
                known.append(r)
        is_probe = rng.random() < 0.15
        msgs.append(dict(questions=qs, answers=known, is_probe=is_probe, now=now))
    # sightings of own records in the cache (routing only; the answer set does not depend on them)
    cache_dgs = []
    if services and rng.random() < 0.5:
        for _ in range(rng.randint(1, 3)):
            s = rng.choice(services)
            o = own_records(s)
            r = dict(rng.choice([o['ptr'], o['srv'], o['txt']] + o['addrs']))
            age = rng.choice([0, 500, 999, 1000, 1001, r['ttl'] * 250 - 1, r['ttl'] * 250, r['ttl'] * 250 + 1, r['ttl'] * 600])
            t = max(1, now - age)
            cache_dgs.append((t, [r]))
        cache_dgs.sort(key=lambda d: d[0])
    return dict(ops=ops, cache=cache_dgs, msgs=msgs, ucast_source=rng.random() < 0.25, services=services)


def gen_solo_case(rng):
    """one service alone on its host: its TTLs (and everything else) are edited in place after the record memo is warm"""
    s0 = gen_service(rng)
    s0['server'] = 'solo.local.'
    s0['host_ttl'] = rng.choice([120, 60])
    s1 = dict(s0, host_ttl=rng.choice([30, 240, 10]), other_ttl=rng.choice([4500, 50]), port=rng.choice([80, 9]), text=rng.choice([b'', b'\x01q']))
    ops = [('add', s0), ('update-inplace', s1)]
    if rng.random() < 0.3:
        ops = [('add', s0), ('remove', s0['name']), ('add-same-object', s1)]
    q = rng.choice([(s0['type'], 12), (s0['name'], 33), (s0['name'], 255), ('solo.local.', 1), ('solo.local.', 28)])
    msgs = [dict(questions=[rec('KQuestion', q[0], q[1], 1)], answers=[], is_probe=False, now=100000)]
    return dict(ops=ops, cache=[], msgs=msgs, ucast_source=False, services=[s1])


# ------------------------------------------------------------------------------------------------
# implementation
# ------------------------------------------------------------------------------------------------

def mk_info(s):
    from zeroconf import ServiceInfo
    return ServiceInfo(s['type'], s['name'], port=s['port'], weight=s['weight'], priority=s['priority'], properties=s['text'],
                       server=s['server'], host_ttl=s['host_ttl'], other_ttl=s['other_ttl'], addresses=s['v4'] + s['v6'])


def observe(case):
    from zeroconf._cache import DNSCache
    from zeroconf._exceptions import ServiceNameAlreadyRegistered
    from zeroconf._handlers.query_handler import QueryHandler
    from zeroconf._handlers.record_manager import RecordManager
    from zeroconf._handlers.answers import construct_outgoing_multicast_answers
    from zeroconf._history import QuestionHistory
    from zeroconf._services.registry import ServiceRegistry

    class ZC:
        pass
    zc = ZC()
    zc.registry = ServiceRegistry()
    zc.cache = DNSCache()
    zc.question_history = QuestionHistory()
    zc.out_queue = zc.out_delay_queue = None
    zc.async_notify_all = lambda: None
    rm = RecordManager(zc)
    infos = {}
    removed = {}
    log = []
    for op, arg in case['ops']:
        try:
            if op == 'add':
                info = mk_info(arg)
                zc.registry.async_add(info)
                infos[info.key] = info
                # warm the record memo the way answering a query does
                info.dns_pointer(); info.dns_service(); info.dns_text(); info.dns_addresses(); info.get_address_and_nsec_records()
            elif op == 'update-new':
                info = mk_info(arg)
                zc.registry.async_update(info)
                infos[info.key] = info
            elif op == 'add-same-object':
                info = removed[arg['name'].lower()]
                info.port, info.weight, info.priority = arg['port'], arg['weight'], arg['priority']
                info.host_ttl, info.other_ttl = arg['host_ttl'], arg['other_ttl']
                info._set_text(arg['text'])
                zc.registry.async_add(info)
                infos[info.key] = info
            elif op == 'update-inplace':
                info = infos[arg['name'].lower()]
                # warm the record memo, then edit attributes and update: replies must reflect only the new state
                info.dns_pointer(); info.dns_service(); info.dns_text(); info.dns_addresses(); info.get_address_and_nsec_records()
                info.port, info.weight, info.priority = arg['port'], arg['weight'], arg['priority']
                info.host_ttl, info.other_ttl = arg['host_ttl'], arg['other_ttl']
                info._set_text(arg['text'])
                info.addresses = arg['v4'] + arg['v6']
                zc.registry.async_update(info)
            else:
                key = arg.lower()
                if key in infos:
                    zc.registry.async_remove(infos[key])
                    removed[key] = infos.pop(key)
                else:
                    zc.registry.async_remove(mk_info(dict(gen_dummy(), name=arg, type=arg.split('.', 1)[1])))
            log.append(0)
        except ServiceNameAlreadyRegistered:
            log.append(9)
        except Exception as e:     # no other exception is part of the registry's contract: an observation the model cannot produce
            log.append([8, type(e).__name__])

    class Msg:
        pass
    for t, recs in case['cache']:
        m = FakeIncoming(answers=[cachesim.mk(dict(r, created=t)) for r in recs], now=t, flags=0x8400)
        rm.async_updates_from_response(m)
    msgs = []
    for md in case['msgs']:
        m = FakeIncoming(questions=[cachesim.mk(q) for q in md['questions']],
                         answers=[cachesim.mk(dict(r, created=md['now'])) for r in md['answers']],
                         now=md['now'], is_probe=md['is_probe'])
        msgs.append(m)
    qh = QueryHandler(zc)
    # (the listener hands a query to the handler only while the registry says it has entries: AsyncListener._process_datagram_at_time)
    qa = qh.async_response(msgs, case['ucast_source']) if zc.registry.has_entries else None
    types = vset(zc.registry.async_get_types())
    if qa is None:
        return [log, types, None], None
    dicts = [qa.ucast, qa.mcast_now, qa.mcast_aggregate, qa.mcast_aggregate_last_second]

    def vaset(d):
        return vset([[vrec0(r), vset([vrec0(a) for a in adds])] for r, adds in d.items()])

    def constructed(d):
        out = construct_outgoing_multicast_answers(d)
        ans = [r for r, _ in out.answers]
        assert len({id(x) for x in ans}) == len(ans)
        return [vset([vrec_ident(r) for r in ans]), vset([vrec_ident(r) for r in out.additionals])], out
    cons = [constructed(d) for d in dicts]
    return [log, types, [vaset(d) for d in dicts] + [c[0] for c in cons]], (dicts, [c[1] for c in cons])


def gen_dummy():
    return dict(type='_t._tcp.local.', name='q._t._tcp.local.', server='q.local.', port=1, weight=0, priority=0, text=b'', host_ttl=120,
                other_ttl=4500, v4=[V4[0]], v6=[])


# ------------------------------------------------------------------------------------------------
# the property's own oracle
# ------------------------------------------------------------------------------------------------

def ident_ttl(d):
    return (py_ident(d), int(d['ttl']))


def py_ident_obj(o):
    return obj_ident_ttl(o)[0]


def obj_ident_ttl(o):
    v = vrec0(o)
    k = {1: 'KAddress', 2: 'KHinfo', 3: 'KPointer', 4: 'KText', 5: 'KService', 6: 'KNsec'}[v[0]]
    rd = v[7]
    d = dict(kind=k, name=v[1], type=v[2], cls=v[3], address=rd[0], scope_id=None if rd[1] is None else rd[1][0], cpu=rd[2], os=rd[3],
             alias=rd[4], text=rd[5], priority=rd[6], weight=rd[7], port=rd[8], server=rd[9], next_name=rd[10], rdtypes=rd[11])
    return (py_ident(d), v[5])


def oracle(case, obs, extra):
    for (op, arg), l in zip(case['ops'], obs[0]):
        if isinstance(l, list):
            return f"registry operation {op} on {arg if isinstance(arg, str) else arg['name']} raised {l[1]}"
    services = case['services']
    questions = [q for m in case['msgs'] for q in m['questions']]
    known = [r for m in case['msgs'] if not m['is_probe'] for r in m['answers']]
    if any(q['type'] == 255 and any(q['name'].lower() == s['server'].lower() for s in services) for q in questions):
        return None   # ANY on a host name: outside the completeness claim
    if any(r['kind'] == 'KNsec' for r in known):
        return None   # NSEC in the known-answer list: outside the completeness claim
    registered_types = {s['type'].lower() for s in services}
    # the type index must list exactly the types of registered services
    got_types = set(obs[1][1])
    if got_types != registered_types:
        return f"registry advertises types {sorted(got_types)}, registered services have {sorted(registered_types)}"
    expected = {}
    for q in questions:
        n, t = q['name'].lower(), q['type']
        if t == 12 and n == ENUM:
            for ty in sorted(registered_types):
                r = rec('KPointer', ENUM, 12, 1, alias=ty, ttl=4500)
                expected[py_ident(r)] = r
            continue
        for s in services:
            o = own_records(s)
            if t in (12, 255) and s['type'].lower() == n:
                expected[py_ident(o['ptr'])] = o['ptr']
            if t in (1, 28) and s['server'].lower() == n:
                hits = [a for a in o['addrs'] if a['type'] == t]
                for a in hits:
                    expected[py_ident(a)] = a
                if not hits and o['nsec'] is not None:
                    expected[py_ident(o['nsec'])] = o['nsec']
            if t in (33, 255) and s['name'].lower() == n:
                expected[py_ident(o['srv'])] = o['srv']
            if t in (16, 255) and s['name'].lower() == n:
                expected[py_ident(o['txt'])] = o['txt']
    # minus records the querier lists with more than half the TTL (the last listing of an identity counts)
    last_known = {}
    for r in known:
        last_known[py_ident(r)] = r
    # an address answer is only suppressed individually; NSEC answers are never listed (excluded above)
    want = {i: r for i, r in expected.items() if not (i in last_known and last_known[i]['ttl'] > r['ttl'] / 2)}
    if extra is None:
        got = {}
    else:
        got = {}
        for d in extra[0]:
            for r in d:
                i, ttl = obj_ident_ttl(r)
                got[i] = ttl
    if set(got) != set(want):
        missing = [want[i] for i in want if i not in got]
        surplus = [i for i in got if i not in want]
        return f"answers offered differ from what is registered: missing {[(m['kind'], m['name'], m['type']) for m in missing]}, surplus {surplus}"
    for i, ttl in got.items():
        if ttl != want[i]['ttl']:
            return f"answer {i} carries ttl {ttl}, the service's configured ttl is {want[i]['ttl']}"
    # additionals: only own SRV/TXT/address/NSEC of some registered service, never repeating an answer, no duplicates
    own = set()
    for s in services:
        o = own_records(s)
        for r in [o['srv'], o['txt']] + o['addrs'] + ([o['nsec']] if o['nsec'] else []):
            own.add(ident_ttl(r))
    if extra is not None:
        for out in extra[1]:
            ans = {obj_ident_ttl(r)[0] for r, _ in out.answers}
            seen = set()
            for a in out.additionals:
                it = obj_ident_ttl(a)
                if it[0] in ans:
                    return f"additional {it[0]} repeats an answer"
                if it[0] in seen:
                    return f"additional {it[0]} listed twice"
                seen.add(it[0])
                if it not in own:
                    return f"additional {it} is not an SRV/TXT/address/NSEC record of a registered service"
    return None


# ------------------------------------------------------------------------------------------------

def coq_svc(s):
    return ("{| s_type := %s; s_name := %s; s_server := %s; s_port := %s; s_weight := %s; s_priority := %s; s_text := %s; "
            "s_host_ttl := %s; s_other_ttl := %s; s_v4 := %s; s_v6 := %s |}" % (
                ctext(s['type']), ctext(s['name']), ctext(s['server']), cz(s['port']), cz(s['weight']), cz(s['priority']), ctext(s['text']),
                cz(s['host_ttl']), cz(s['other_ttl']), clist(ctext(a) for a in s['v4']), clist(ctext(a) for a in s['v6'])))


def coq_case(case):
    ops = []
    for op, arg in case['ops']:
        if op in ('add', 'add-same-object'):
            ops.append(f"RAdd {coq_svc(arg)}")
        elif op.startswith('update'):
            ops.append(f"RUpdate {coq_svc(arg)}")
        else:
            ops.append(f"RRemove {ctext(arg)}")
    dgs = clist(f"({cz(t)}, {clist(coq_rec(dict(r, created=t)) for r in recs)})" for t, recs in case['cache'])
    msgs = clist("{| qm_questions := %s; qm_answers := %s; qm_is_probe := %s; qm_now := %s |}" % (
        clist(coq_rec(q) for q in m['questions']), clist(coq_rec(dict(r, created=m['now'])) for r in m['answers']),
        cbool(m['is_probe']), cz(m['now'])) for m in case['msgs'])
    return "{| i_ops := %s; i_cache := %s; i_msgs := %s; i_ucast_source := %s |}" % (clist(ops), dgs, msgs, cbool(case['ucast_source']))


def jsonable(case):
    from props.c05 import jsonable as j
    return j(case)


def run(ctx):
    ok = ctx.build(TARGETS)
    if ok:
        ok = ctx.assumptions()
    ctx.count_obligations('Props/C03.v')
    rng = ctx.rng
    n = 1500 if ctx.tier == 'quick' else 20000
    cases = [gen_case(rng) for _ in range(n)]
    # the pinned-tree defect (repaired): last instance of a type unregistered while another type remains
    a, b = dict(gen_dummy(), type='_t._tcp.local.', name='x._t._tcp.local.'), dict(gen_dummy(), type='_u._udp.local.', name='y._u._udp.local.')
    cases.insert(0, dict(ops=[('add', a), ('add', b), ('remove', a['name'])], cache=[],
                         msgs=[dict(questions=[rec('KQuestion', ENUM, 12, 1)], answers=[], is_probe=False, now=100000)],
                         ucast_source=False, services=[b]))
    coq_cases, fails = [], []
    for case in cases:
        obs, extra = observe(case)
        why = oracle(case, obs, extra)
        if why:
            fails.append((case, obs, why))
        coq_cases.append((coq_case(case), obs, case))
        ctx.count(repr(case), nontrivial=bool(case['services']))
        ctx.hist('answered' if obs[2] is not None else 'no-strategy')
        ctx.hist(f"services:{len(case['services'])}")
        if obs[2] is not None:
            for name, d in zip(['ucast', 'mcast_now', 'aggregate', 'last_second'], obs[2][:4]):
                if d[1]:
                    ctx.hist('route:' + name)
    ctx.sample(jsonable({k: v for k, v in cases[0].items()}))
    ctx.sample(jsonable({k: v for k, v in cases[5].items()}))
    ctx.cov['rule'] = ("registries reached by random register / update (fresh object or in-place attribute edit with a warm record memo) / unregister "
                       "sequences over services with shared and re-cased host names, v4/v6/dual/no addresses, a subtype, custom TTLs; queries of 1-3 "
                       "questions (PTR/A/AAAA/SRV/TXT/ANY/NSEC/unknown, QU/QM) over registered, re-cased and unregistered names in 1-2 packets, probes; "
                       "known answers with TTL at half-1/half/half+1; cache sightings at 1 s and quarter-TTL boundaries; distinct = distinct cases; "
                       "non-trivial = at least one service registered at query time")
    for case, obs, why in fails[:3]:
        ctx.violation({'kind': 'oracle', 'why': why, 'case': jsonable(case), 'broken': None if ok else ctx.build_msg})
    if not ok:
        if not ctx.violations:
            ctx.violation({'kind': 'broken-obligation', 'broken': ctx.build_msg}, no_input=True)
        return ctx.finish()
    mism = ctx.run_cases('Model.Base Model.PyRec Model.Respond Model.ValSet Corr.C03', 'c03_in', 'c03_run', [(c, o) for c, o, _ in coq_cases],
                         shard=max(20, len(coq_cases) // (2 * common.NPROC) + 1), mismatch_fn='mismatches_u')
    ctx.cov['traces_validated_against_impl'] = len(coq_cases) - len(mism)
    for idx, model_out in mism[:3]:
        ctx.violation({'kind': 'correspondence', 'what': 'Model.Respond (registry + async_response) disagrees with the implementation',
                       'case': jsonable(coq_cases[idx][2]), 'model': model_out[:3000], 'implementation': str(coq_cases[idx][1])[:3000]},
                      no_input=True)
    return ctx.finish()


def replay(ctx, path):
    from props.c05 import unjson
    r = json.load(open(path))
    if 'case' not in r:
        return run(ctx)
    case = unjson(r['case'])
    case['ops'] = [tuple(o) for o in case['ops']]
    case['cache'] = [tuple(d) for d in case['cache']]
    obs, extra = observe(case)
    why = oracle(case, obs, extra)
    print("replay:", f"still fails: {why}" if why else "passes")
    return 1 if why else 0
