"""C06 - response ingestion and the record-update listener contract (shares props/c05.py)."""
from props import c05


def run(ctx):
    return c05.run(ctx, focus='C06')


def replay(ctx, path):
    return c05.replay(ctx, path, focus='C06')
