"""C01 - wire codec round trip; C14 - size limits and section accounting (props/c14.py sets FOCUS).
Model: coq/Model/WireEnc.v + WireDec.v. Correspondence: packets() byte for byte, then the decoders."""
import json

from lib import cachesim, common, rfc1035
from lib.cachesim import rec, coq_rec
from lib.common import cz, cbool, clist

TARGETS_FOR = {'C01': ['Props/C01.vo', 'Corr/C01.vo'], 'C14': ['Props/C14.vo', 'Corr/C01.vo']}

# ------------------------------------------------------------------------------------------------
# message generator
# ------------------------------------------------------------------------------------------------


def name_pool(rng):
    base = ['local.', '_tcp.local.', '_http._tcp.local.', '_t._tcp.local.', '_T._tcp.local.', 'x._t._tcp.local.', 'X._t._tcp.local.',
            'y._t._tcp.local.', 'h.local.', 'H.local.', 'café._t._tcp.local.', '日本._t._tcp.local.', 'My.Printer._http._tcp.local.',
            'a.b.c.d.local.', 'b.c.d.local.', 'c.d.local.', 'd.local.', '_sub._t._tcp.local.', 'p._sub._t._tcp.local.',
            '_services._dns-sd._udp.local.', 'a.local.', 'aa.local.', 'a.a.local.']
    base.append('l' * 62 + '.local.')
    base.append('m' * 63 + '.local.')
    base.append('é' * 31 + 'x.local.')            # 63 bytes
    # names of 252 / 253 characters
    for total in (252, 253):
        labels, remaining = [], total - len('.local.')
        while remaining > 0:
            n = min(50, remaining - 1) if remaining > 1 else remaining
            if n <= 0:
                break
            labels.append(chr(ord('a') + len(labels)) * n)
            remaining -= n + 1
        nm = '.'.join(labels) + '.local.'
        if len(nm) == total:
            base.append(nm)
    return base


def wire_over_255_names():
    """<= 253 characters but > 255 octets on the wire (multi-byte UTF-8): accepted by the builder, refused by a strict RFC 1035 decoder"""
    return ['.'.join(['é' * 30] * 5) + '.local.', '.'.join(['日' * 20] * 5) + '._t._tcp.local.']


def too_long_names():
    return ['n' * 64 + '.local.', 'é' * 32 + '.local.', 'x.' + 'o' * 65 + '._t._tcp.local.', 'o' * 200 + '.local.']


def gen_record(rng, names, size_hint=None):
    k = rng.choice(['A', 'AAAA', 'PTR', 'TXT', 'SRV', 'HINFO', 'NSEC', 'CNAME', 'TXT', 'PTR'])
    n = rng.choice(names)
    cls = rng.choice([1, 0x8001, 1, 0x8001, 3])
    ttl = rng.choice([0, 1, 119, 120, 4500, 2 ** 31, 2 ** 32 - 1])
    if k == 'A':
        d = rec('KAddress', n, 1, cls, address=bytes(rng.randrange(256) for _ in range(4)))
    elif k == 'AAAA':
        d = rec('KAddress', n, 28, cls, address=bytes(rng.randrange(256) for _ in range(16)))
    elif k in ('PTR', 'CNAME'):
        d = rec('KPointer', n, 12 if k == 'PTR' else 5, cls, alias=rng.choice(names))
    elif k == 'TXT':
        size = size_hint if size_hint is not None else rng.choice([0, 1, 10, 100, 255, 256, 700])
        d = rec('KText', n, 16, cls, text=bytes(rng.randrange(256) for _ in range(size)))
    elif k == 'SRV':
        d = rec('KService', n, 33, cls, priority=rng.choice([0, 1, 65535]), weight=rng.choice([0, 7]), port=rng.choice([0, 80, 65535]),
                server=rng.choice(names))
    elif k == 'HINFO':
        d = rec('KHinfo', n, 13, cls, cpu=rng.choice(['', 'x86', 'é' * 10, 'c' * 255]), os=rng.choice(['', 'linux', 'o' * 255]))
    else:
        d = rec('KNsec', n, 47, cls, next_name=rng.choice(names), rdtypes=rng.choice([[1], [28, 1], [12, 16, 33, 47], [255], [1, 1, 28], [0]]))
    d['ttl'] = ttl
    return d


def gen_message(rng, names, shape):
    flags = rng.choice([0, 0x8400, 0, 0x8400, 0x8000, 0x0100])
    m = dict(flags=flags, multicast=rng.random() < 0.7, id=rng.choice([0, 1, 4660, 65535]), questions=[], answers=[], authorities=[], additionals=[])
    if shape == 'small':
        nq, na, nau, nad = rng.randint(0, 3), rng.randint(0, 4), rng.randint(0, 2), rng.randint(0, 4)
    elif shape == 'medium':
        nq, na, nau, nad = rng.choice([0, 1, 20]), rng.randint(0, 40), rng.randint(0, 5), rng.randint(0, 40)
    else:   # large: forces several packets
        nq, na, nau, nad = rng.choice([0, 1, 100, 300]), rng.choice([0, 50, 300]), rng.choice([0, 30]), rng.choice([0, 80])
    for _ in range(nq):
        m['questions'].append(rec('KQuestion', rng.choice(names), rng.choice([1, 12, 16, 28, 33, 47, 255]), rng.choice([1, 0x8001])))
    for _ in range(na):
        r = gen_record(rng, names)
        now = rng.choice([0, 0, 0, 1, 2])
        if now:
            # answers added with a time: created some seconds before `now`
            r['created'] = 1000
            now = 1000 + rng.choice([0, 1, 999, 1000, 1001, 60000, 119999, 120000, 120001, 4500000])
        m['answers'].append((r, now))
    for _ in range(nau):
        r = gen_record(rng, names)
        m['authorities'].append(dict(r, kind='KPointer', type=12, alias=rng.choice(names)))
    for _ in range(nad):
        m['additionals'].append(gen_record(rng, names))
    return m


def boundary_messages(rng, names):
    """an entry whose size is swept so that the 1460 / 8966 limits fall on every section position, with live compression entries"""
    out = []
    for limit, first in ((1460, False), (8966, True)):
        for pos in range(0, 4):
            for delta in (-3, -2, -1, 0, 1, 2, 3):
                for query in (False, True):
                    m = dict(flags=0 if query else 0x8400, multicast=True, id=0, questions=[], answers=[], authorities=[], additionals=[])
                    entries = []
                    if not first:
                        # some small entries first (so allow_long is already False), sharing suffixes with the big one
                        for i in range(pos + 1):
                            entries.append(rec('KPointer', '_t._tcp.local.', 12, 1, alias=f'i{i}._t._tcp.local.'))
                    base_len = 12 + sum(40 for _ in entries)
                    big_name = 'big._t._tcp.local.'
                    filler = max(0, limit - base_len - 40 + delta)
                    big = rec('KText', big_name, 16, 0x8001, text=bytes([120]) * filler)
                    entries.append(big)
                    entries.append(rec('KService', big_name, 33, 0x8001, port=80, server='h.local.'))
                    entries.append(rec('KPointer', '_t._tcp.local.', 12, 1, alias=big_name))
                    sect = ['answers', 'authorities', 'additionals'][pos % 3]
                    for e in entries:
                        if sect == 'answers':
                            m['answers'].append((e, 0))
                        elif sect == 'authorities' and e['kind'] == 'KPointer':
                            m['authorities'].append(e)
                        else:
                            m['additionals'].append(e)
                    if query:
                        m['questions'].append(rec('KQuestion', '_t._tcp.local.', 12, 1))
                    out.append(m)
    # rollback x compression across sections: the entry that overflows is rolled back in one section, and a LATER section
    # (which keeps writing into the same datagram) reuses its owner name / points at it
    for limit in (1460,):
        for delta in range(-3, 4):
            for query in (False, True):
                for mc in (True, False):
                    m = dict(flags=0 if query else 0x8400, multicast=mc, id=7, questions=[], answers=[], authorities=[], additionals=[])
                    if query:
                        m['questions'].append(rec('KQuestion', '_t._tcp.local.', 12, 1))
                    m['answers'].append((rec('KPointer', '_t._tcp.local.', 12, 1, alias='first._t._tcp.local.'), 0))
                    big_name = 'printer-info._t._tcp.local.'
                    m['answers'].append((rec('KText', big_name, 16, 0x8001, text=b''), 0))
                    base = len(build_impl(m).packets()[0])          # exact size up to the end of the (still empty) TXT record
                    m['answers'][1] = (rec('KText', big_name, 16, 0x8001, text=bytes([121]) * (limit - base + delta)), 0)
                    m['answers'].append((rec('KAddress', 'later.local.', 1, 0x8001, address=b'\x01\x02\x03\x04'), 0))
                    m['authorities'].append(rec('KPointer', '_t._tcp.local.', 12, 1, alias=big_name))
                    m['additionals'].append(rec('KService', big_name, 33, 0x8001, port=80, server='printer-info.local.'))
                    m['additionals'].append(rec('KAddress', 'printer-info.local.', 1, 0x8001, address=b'\x01\x02\x03\x05'))
                    m['additionals'].append(rec('KText', big_name, 16, 0x8001, text=b'\x01z'))
                    out.append(m)
    return out


def build_impl(m):
    from zeroconf import DNSOutgoing
    o = DNSOutgoing(m['flags'], multicast=m['multicast'], id_=m['id'])
    for q in m['questions']:
        o.add_question(cachesim.mk(q))
    for r, now in m['answers']:
        o.add_answer_at_time(cachesim.mk(r), now)
    for r in m['authorities']:
        o.add_authorative_answer(cachesim.mk(r))
    for r in m['additionals']:
        o.add_additional_answer(cachesim.mk(r))
    return o


def coq_msg(m):
    return ("{| r_flags := %s; r_multicast := %s; r_id := %s; r_questions := %s; r_answers := %s; r_authorities := %s; r_additionals := %s |}" % (
        cz(m['flags']), cbool(m['multicast']), cz(m['id']), clist(coq_rec(q) for q in m['questions']),
        clist(f"({coq_rec(r)}, {cz(now)})" for r, now in m['answers']),
        clist(coq_rec(r) for r in m['authorities']), clist(coq_rec(r) for r in m['additionals'])))


def observe(m):
    from zeroconf._exceptions import NamePartTooLongException
    try:
        ps = build_impl(m).packets()
        return [0, [list(p) for p in ps]], ps, None
    except NamePartTooLongException:
        return [1, 3], None, 'NamePartTooLongException'
    except Exception as e:  # noqa: BLE001
        code = {'IndexError': 1, 'ValueError': 5, 'error': 12, 'UnicodeEncodeError': 13}.get(type(e).__name__, 99)
        return [1, code], None, type(e).__name__


# ------------------------------------------------------------------------------------------------
# the properties' own oracles
# ------------------------------------------------------------------------------------------------

def max_label_bytes(m):
    mx = 0
    for d in m['questions'] + [r for r, _ in m['answers']] + m['authorities'] + m['additionals']:
        for nm in (d['name'], d.get('alias', ''), d.get('server', ''), d.get('next_name', '')):
            if nm and (d['kind'] != 'KPointer' or True):
                for lab in nm.rstrip('.').split('.'):
                    mx = max(mx, len(lab.encode('utf-8')))
    return mx


def relevant_names(d):
    k = d['kind']
    out = [d['name']]
    if k == 'KPointer':
        out.append(d['alias'])
    if k == 'KService':
        out.append(d['server'])
    if k == 'KNsec':
        out.append(d['next_name'])
    return out


def expected_record(d, now, multicast):
    k = d['kind']
    if now == 0:
        ttl = int(d['ttl'])
    else:
        remain = (d['created'] + 1000 * d['ttl'] - now) / 1000.0
        ttl = int(0 if remain < 0 else remain)
    base = dict(name=d['name'], type=d['type'], cls=d['cls'] & 0x7FFF, unique=bool(d['cls'] & 0x8000) and multicast, ttl=ttl)
    if k == 'KAddress':
        base['rdata'] = ('address', bytes(d['address']))
    elif k == 'KPointer':
        base['rdata'] = ('alias', d['alias'])
    elif k == 'KText':
        base['rdata'] = ('text', bytes(d['text']))
    elif k == 'KService':
        base['rdata'] = ('srv', d['priority'], d['weight'], d['port'], d['server'])
    elif k == 'KHinfo':
        base['rdata'] = ('hinfo', d['cpu'], d['os'])
    elif k == 'KNsec':
        base['rdata'] = ('nsec', d['next_name'], sorted(set(d['rdtypes'])))
    return base


def oracle(m, ps, exc, focus):
    """C01 and C14 as predicates over the implementation's output."""
    from props.c02 import observe as dec_observe, strict_view_of_impl
    # add_answer_at_time(record, now) silently leaves out a record that has expired by `now`: it is never written
    kept = [r for r, now in m['answers'] if now == 0 or r['created'] + 1000 * r['ttl'] > now]
    longest = max((max((len(l.encode()) for l in n.rstrip('.').split('.')), default=0)
                   for d in m['questions'] + kept + m['authorities'] + m['additionals']
                   for n in relevant_names(d)), default=0)
    if exc == 'NamePartTooLongException':
        return None if longest > 63 else "NamePartTooLongException although every label fits 63 bytes"
    if exc:
        return f"packets() raised {exc}"
    if longest > 63:
        # labels over 63 bytes may only ever be rejected; if the over-long label sits in an entry that was
        # never reached this cannot happen because packets() writes every entry
        return f"a label of {longest} bytes was accepted by the message builder"
    kept_answers = [(r, now) for r, now in m['answers'] if now == 0 or not (r['created'] + 1000 * r['ttl'] <= now)]
    exp_q = [(q['name'], q['type'], q['cls'] & 0x7FFF, bool(q['cls'] & 0x8000) and m['multicast']) for q in m['questions']]
    exp = {'an': [expected_record(r, now, m['multicast']) for r, now in kept_answers],
           'au': [expected_record(r, 0, m['multicast']) for r in m['authorities']],
           'ad': [expected_record(r, 0, m['multicast']) for r in m['additionals']]}
    got_q, got = [], {'an': [], 'au': [], 'ad': []}
    lib_q, lib = [], {'an': [], 'au': [], 'ad': []}
    is_query = (m['flags'] & 0x8000) == 0
    total_entries = len(exp_q) + sum(len(v) for v in exp.values())
    for i, p in enumerate(ps):
        last = i == len(ps) - 1
        if len(p) > 8966:
            return f"datagram {i} is {len(p)} bytes (> 8966)"
        s = rfc1035.parse(p)
        if s is None:
            if total_entries == 0 and len(ps) == 1:
                s = rfc1035.parse(p)   # empty message
            return f"datagram {i} is not well-formed for the independent RFC 1035 decoder (header counts / lengths / names): {p[:80].hex()}..."
        nq, na, nau, nad = s['counts']
        entries = nq + na + nau + nad
        if len(p) > 1460 and entries != 1:
            return f"datagram {i} is {len(p)} bytes with {entries} entries (> 1460 allowed only for a single entry)"
        if entries == 0 and total_entries > 0:
            return f"datagram {i} carries no entry"
        tc = bool(s['flags'] & 0x0200)
        want_flags = m['flags'] | (0x0200 if (is_query and not last) else 0)
        if s['flags'] != want_flags:
            return f"datagram {i}: flags {s['flags']:#x}, expected {want_flags:#x} (TC on every datagram but the last of a query, never on responses)"
        if s['id'] != (0 if m['multicast'] else m['id']):
            return f"datagram {i}: id {s['id']}"
        got_q += s['questions']
        got['an'] += s['records'][:na]
        got['au'] += s['records'][na:na + nau]
        got['ad'] += s['records'][na + nau:]
        # the library's own decoder
        v, info = dec_observe(p)
        if info['escaped'] or not info['msg'].valid:
            return f"datagram {i} is not decodable by the library's own decoder"
        lq, lr = strict_view_of_impl(info)
        lib_q += lq
        lib['an'] += lr[:na]
        lib['au'] += lr[na:na + nau]
        lib['ad'] += lr[na + nau:]
    for label, g, gq in (('independent RFC 1035 decoder', got, got_q), ("library's decoder", lib, lib_q)):
        if gq != exp_q:
            return f"questions recovered by the {label} differ: {str(gq)[:300]} vs given {str(exp_q)[:300]}"
        for sec in ('an', 'au', 'ad'):
            if g[sec] != exp[sec]:
                for j, (a, b) in enumerate(zip(g[sec], exp[sec])):
                    if a != b:
                        return f"section {sec} entry {j} recovered by the {label} differs: {a!r} vs given {b!r}"
                return f"section {sec}: {len(g[sec])} entries recovered by the {label}, {len(exp[sec])} given"
    return None


def msg_tags(m, why):
    tags = set()
    names = [n for d in m['questions'] + [r for r, _ in m['answers']] + m['authorities'] + m['additionals'] for n in relevant_names(d)]
    over = [n for n in names if len(n) <= 253 and len(n.encode('utf-8')) + 1 > 255]
    if over and 'independent RFC 1035 decoder' in why and 'not well-formed' in why:
        tags.add('wire_name_over_255')
    return tags


def jsonable(m):
    from props.c05 import jsonable as j
    return j(m)


def unjson(m):
    from props.c05 import unjson as u
    m = u(m)
    m['answers'] = [(r, now) for r, now in m['answers']]
    return m


def run(ctx, focus='C01'):
    ok = ctx.build(TARGETS_FOR[focus])
    if ok:
        ok = ctx.assumptions()
    ctx.count_obligations(f'Props/{focus}.v')
    rng = ctx.rng
    names = name_pool(rng)
    msgs = []
    quick = ctx.tier == 'quick'
    for _ in range(500 if quick else 8000):
        msgs.append(gen_message(rng, rng.sample(names, rng.randint(2, 8)), 'small'))
    for _ in range(60 if quick else 1500):
        msgs.append(gen_message(rng, rng.sample(names, rng.randint(3, 12)), 'medium'))
    for _ in range(6 if quick else 150):
        msgs.append(gen_message(rng, rng.sample(names, rng.randint(3, 12)), 'large'))
    bm = boundary_messages(rng, names)
    msgs += bm if (not quick or focus == 'C14') else (rng.sample(bm[:-28], 40) + bm[-28:])
    for _ in range(40 if quick else 400):
        msgs.append(gen_message(rng, rng.sample(names, 3) + [rng.choice(too_long_names())], 'small'))
    for nm in (wire_over_255_names() if focus == 'C01' else []):   # a C01 matter (open known finding), not a size/accounting one
        msgs.append(dict(flags=0, multicast=True, id=0, questions=[rec('KQuestion', nm, 12, 1)], answers=[], authorities=[], additionals=[]))
        msgs.append(dict(flags=0x8400, multicast=True, id=0, questions=[], answers=[(rec('KPointer', '_t._tcp.local.', 12, 1, alias=nm), 0)],
                         authorities=[], additionals=[]))
    msgs.append(dict(flags=0, multicast=True, id=0, questions=[], answers=[], authorities=[], additionals=[]))
    ctx.log(f"{len(msgs)} messages")
    coq_cases, fails = [], []
    for m in msgs:
        v, ps, exc = observe(m)
        why = oracle(m, ps, exc, focus)
        if why:
            fails.append((m, why))
        n_entries = len(m['questions']) + len(m['answers']) + len(m['authorities']) + len(m['additionals'])
        coq_cases.append((coq_msg(m), v, m))
        ctx.count(repr(m), nontrivial=n_entries > 0)
        ctx.hist('packets:' + (str(min(len(ps), 5)) + ('+' if len(ps) >= 5 else '') if ps is not None else exc))
        if ps:
            for p in ps:
                ctx.hist('size:' + ('<=1460' if len(p) <= 1460 else ('<=8966' if len(p) <= 8966 else '>8966')))
    ctx.sample(jsonable(msgs[0]))
    ctx.cov['rule'] = ("messages over a suffix-sharing name pool (mixed case, non-ASCII, dotted instance labels, 62/63-byte labels, 252/253-char names, "
                       "over-long labels), all record kinds, TTL {0,1,119,120,4500,2^31,2^32-1}, answers added with a time, query/response x multicast/unicast "
                       "x id, section sizes 0..300, an entry swept so that the 1460/8966 limits fall at -3..+3 bytes on every section position; "
                       "distinct = distinct messages; non-trivial = at least one entry")
    n_reported = 0
    for m, why in fails:
        if n_reported >= 3:
            break
        if ctx.violation({'kind': 'oracle', 'why': why, 'message': jsonable(m), 'broken': None if ok else ctx.build_msg}, tags=msg_tags(m, why)):
            n_reported += 1
    if not ok:
        if not ctx.violations:
            ctx.violation({'kind': 'broken-obligation', 'broken': ctx.build_msg}, no_input=True)
        return ctx.finish()
    mism = ctx.run_cases('Model.Base Model.PyRec Model.WireEnc Corr.C01', 'raw_msg', 'c01_run', [(c, o) for c, o, _ in coq_cases],
                         shard=max(5, len(coq_cases) // (3 * common.NPROC) + 1), timeout=1500)
    ctx.cov['traces_validated_against_impl'] = len(coq_cases) - len(mism)
    for idx, model_out in mism[:3]:
        ctx.violation({'kind': 'correspondence', 'what': 'Model.WireEnc.packets disagrees with DNSOutgoing.packets() (byte-exact comparison)',
                       'message': jsonable(coq_cases[idx][2]), 'model': model_out[:1500],
                       'implementation': str(coq_cases[idx][1])[:1500]}, no_input=True)
    return ctx.finish()


def replay(ctx, path, focus='C01'):
    r = json.load(open(path))
    if 'message' not in r:
        return run(ctx, focus)
    m = unjson(r['message'])
    v, ps, exc = observe(m)
    why = oracle(m, ps, exc, focus)
    print("replay:", f"still fails: {why}" if why else "passes")
    return 1 if why else 0
