"""C16 - back-to-back duplicate datagrams change nothing.
Model: coq/Model/Listener.v (oversize guard, duplicate guard, TC deferral as an LTS); theorems coq/Props/C16.v.
Ties: (1) the real AsyncListener (with stubbed record manager / query handler) against the model on logged label sequences;
(2) metamorphic oracle on the full stack: a traffic history with every datagram doubled against the same history undoubled."""
import json

from lib import cachesim, common
from lib.cachesim import rec
from lib.common import cz, ctext, cbool, clist
from lib.simloop import Sim

TARGETS = ['Props/C16.vo', 'Corr/C16.vo']
T = '_t._tcp.local.'


def q_bytes(questions, known=(), tc=False, ident=0, auth=()):
    from zeroconf import DNSOutgoing, DNSQuestion
    o = DNSOutgoing(0, multicast=True, id_=ident)
    for n, t, qu, *cls in questions:
        o.add_question(DNSQuestion(n, t, (cls[0] if cls else 1) | (0x8000 if qu else 0)))
    for r in known:
        o.add_answer_at_time(cachesim.mk(r), 0)
    for r in auth:
        o.add_authorative_answer(cachesim.mk(r))
    b = bytearray(o.packets()[0])
    if tc:
        b[2] |= 0x02
    return bytes(b)


def r_bytes(recs):
    from zeroconf import DNSOutgoing
    o = DNSOutgoing(0x8400)
    for r in recs:
        o.add_answer_at_time(cachesim.mk(r), 0)
    return o.packets()[0]


def rq_bytes():
    from zeroconf import DNSOutgoing, DNSQuestion
    o = DNSOutgoing(0x8400)
    o.add_question(DNSQuestion('_u._udp.local.', 12, 0x8001))
    o.add_answer_at_time(cachesim.mk(rec('KPointer', '_u._udp.local.', 12, 1, alias='w._u._udp.local.', ttl=10)), 0)
    return o.packets()[0]


def datagram_pool():
    ptr = rec('KPointer', T, 12, 1, alias='x.' + T, ttl=4500)
    return {
        'qm': q_bytes([(T, 12, False)]),
        'qm2': q_bytes([(T, 12, False), ('x.' + T, 33, False)]),
        'qu': q_bytes([(T, 12, True)]),
        'qmix': q_bytes([(T, 12, False), ('x.' + T, 16, True)]),
        'qany': q_bytes([(T, 12, False, 255)]),                 # QCLASS ANY, no unicast-response bit
        'qany33': q_bytes([('x.' + T, 33, False, 255)]),
        'qch': q_bytes([(T, 12, False, 3), ('x.' + T, 33, False)]),    # some other class without the top bit
        'quany': q_bytes([(T, 12, True, 255)]),
        'qusrv': q_bytes([('x.' + T, 33, True)]),              # QU for a 120 s record: multicast when a quarter of that has passed
        'tc1': q_bytes([(T, 12, False)], tc=True),
        'tc2': q_bytes([(T, 12, False)], known=[ptr], tc=True),
        'tcqu': q_bytes([(T, 12, True)], tc=True),
        'resp': r_bytes([ptr]),
        'respq': rq_bytes(),        # a response that echoes a QU question (ignored by receivers, but it exempts the datagram from the guard)
        'resp2': r_bytes([rec('KAddress', 'h.local.', 1, 0x8001, address=b'\x0a\x00\x00\x01', ttl=120)]),
        'bad': b'\x00\x01\x02',
        'bad12': bytes(12) + b'\xc0\x0c',
        'big': bytes(8967),
        'empty': b'',
    }


# which pool datagrams contain a question with the unicast-response bit: known from how they were built, not asked of the parser
QU_NAMES = ('qu', 'qmix', 'tcqu', 'quany', 'qusrv', 'respq')


# ------------------------------------------------------------------------------------------------
# (1) listener-level correspondence
# ------------------------------------------------------------------------------------------------

def gen_listener_seq(rng, pool):
    seq = []
    t = 0
    names = sorted(pool)
    for _ in range(rng.randint(1, 9)):
        name = rng.choice(names)
        addr = rng.choice(['10.0.0.7', '10.0.0.8'])
        he = rng.random() < 0.85
        tcd = rng.choice([400, 433, 500])
        seq.append((t, name, addr, he, tcd))
        if rng.random() < 0.5:
            dt = rng.choice([0, 0, 1, 999, 1000])
            seq.append((t + dt, name, rng.choice([addr, addr, '10.0.0.8']), he, tcd))
            t += dt
        t += rng.choice([0, 1, 3, 399, 400, 401, 499, 500, 501, 999, 1000, 1001, 2503])
    return seq


def run_listener(seq, pool):
    from zeroconf._listener import AsyncListener
    from zeroconf._protocol.incoming import DNSIncoming
    labels, obs = [], []
    with Sim() as sim:
        class Registry:
            has_entries = True

        class RM:
            def async_updates_from_response(self, msg):
                cur.append([4, list(msg.data)])

        class QH:
            def handle_assembled_query(self, packets, addr, port, transport, v6):
                cur.append([7, addr, [list(p.data) for p in packets]])

        class ZC:
            loop = sim.loop
            registry = Registry()
            record_manager = RM()
            query_handler = QH()
        zc = ZC()
        lst = AsyncListener(zc)
        lst.transport = object()
        cur = []
        orig = AsyncListener._respond_query

        def respond(self, msg, addr, port, transport, v6):
            if msg is None:      # the TC timer fired: its own label
                labels.append(f"LTcFire {ctext(addr)} {cz(sim.now)}")
                cur.clear()
                orig(self, msg, addr, port, transport, v6)
                obs.append(list(cur[-1]) if cur else [0])
            else:
                orig(self, msg, addr, port, transport, v6)
        AsyncListener._respond_query = respond
        try:
            async def main():
                t0 = sim.now
                for (dt, name, addr, he, tcd) in seq:
                    await sim.sleep_until(t0 + dt)
                    data = pool[name]
                    sim.randoms['tc_delay'] = [tcd]
                    zc.registry.has_entries = he
                    m = DNSIncoming(data, now=sim.now) if len(data) <= 8966 else None
                    flags = ("{| lm_data := %s; lm_valid := %s; lm_is_query := %s; lm_truncated := %s; lm_has_qu := %s |}" % (
                        ctext(data) if len(data) <= 8966 else f"repeat 0 {len(data)}%nat",
                        cbool(bool(m and m.valid)), cbool(bool(m and m.is_query())), cbool(bool(m and m.truncated)),
                        cbool(name in QU_NAMES)))
                    labels.append(f"LDgram {flags} {ctext(addr)} {cz(sim.now)} {cbool(he)} {cz(tcd)}")
                    cur.clear()
                    before_msg = lst.last_message
                    lst.datagram_received(data, (addr, 5353))
                    if cur:
                        obs.append(list(cur[-1]))
                    elif len(data) > 8966:
                        obs.append([1])
                    elif lst.last_message is before_msg:
                        obs.append([2])          # no new DNSIncoming was built: dropped by the duplicate guard
                    else:
                        last = lst.last_message
                        if not last.valid:
                            obs.append([3])
                        elif last.is_query() and not he:
                            obs.append([5])
                        else:
                            obs.append([6])
                await sim.sleep(1500)
            sim.run(main())
        finally:
            AsyncListener._respond_query = orig
    return labels, obs



# ------------------------------------------------------------------------------------------------
# (2) metamorphic oracle on the full stack
# ------------------------------------------------------------------------------------------------

# minimised failures, run first: the two shapes of the known finding (immediate multicast doubled; the one answer held back to the 500 ms bound)
CORPUS = [
    [(1300, 'qusrv', '10.0.0.7', 5353)],
    [(0, 'tc1', '10.0.0.7', 40000), (130, 'qmix', '10.0.0.7', 40000)],
    # a truncated query with a QU question (its copy gets past the duplicate guard and is discarded by the reassembly list), then further
    # truncated queries whose hold times come from the same random stream
    [(0, 'tcqu', '10.0.0.7', 5353), (3000, 'tc1', '10.0.0.8', 5353), (6000, 'tc2', '10.0.0.7', 5353)],
    [(0, 'tc1', '10.0.0.8', 5353), (1300, 'tcqu', '10.0.0.7', 40000), (5000, 'tc1', '10.0.0.8', 5353)],
]


def gen_history(rng, pool):
    evs = []
    t = 0
    for _ in range(rng.randint(1, 7)):
        name = rng.choice(['qm', 'qm', 'qm2', 'qu', 'qmix', 'qany', 'qany33', 'qch', 'quany', 'qusrv', 'tcqu', 'respq', 'tc1', 'tc2', 'resp', 'resp2', 'bad', 'respY', 'bye'])
        evs.append((t, name, rng.choice(['10.0.0.7', '10.0.0.8', 'fe80::7']), rng.choice([5353, 5353, 5353, 40000])))
        t += rng.choice([1, 30, 130, 450, 600, 1100, 1300, 5000])
    return evs


def run_history(evs, pool, doubled):
    from zeroconf import ServiceInfo
    from zeroconf.asyncio import AsyncServiceBrowser
    trace = []
    with Sim(loopback=True) as sim:
        class L:
            def add_service(self, zc, t, n):
                trace.append(('cb', sim.now - t0[0], 'add', n))

            def remove_service(self, zc, t, n):
                trace.append(('cb', sim.now - t0[0], 'rem', n))

            def update_service(self, zc, t, n):
                trace.append(('cb', sim.now - t0[0], 'upd', n))
        t0 = [0]
        from zeroconf._updates import RecordUpdateListener

        class Raw(RecordUpdateListener):
            def async_update_records(self, zc, now, records):
                if t0[0]:
                    trace.append(('cb', sim.now - t0[0], 'raw-update', len(records)))

            def async_update_records_complete(self):
                if t0[0]:
                    trace.append(('cb', sim.now - t0[0], 'raw-complete', 0))

        async def main():
            a = await sim.start_host('A', '10.0.0.1', addr6='fe80::1', families=('v4', 'v6'))
            x = ServiceInfo(T, 'x.' + T, port=80, addresses=[bytes([10, 0, 0, 1])], server='h.local.')
            await a.azc.async_register_service(x)
            br = AsyncServiceBrowser(a.zc, ['_u._udp.local.'], listener=L())
            a.zc.async_add_listener(Raw(), None)
            await sim.sleep(30000)
            t0[0] = sim.now
            base = len(sim.net.log)
            # "under identical random seeds": one stream of hold times for truncated queries per run, the same with and without the copies -
            # a copy that is discarded must not consume a draw
            sim.randoms['tc_delay'] = [400 + (37 * k) % 101 for k in range(60)]
            for (dt, name, src, port) in evs:
                await sim.sleep_until(t0[0] + dt)
                sim.randoms['mcast_delay'] = [57]
                data = pool[name]
                for _ in range(2 if doubled else 1):
                    if ':' in src:
                        sim.net.inject(a, data, (src, port, 0, 3), sock=1)     # IPv6 socket: 4-tuple source
                    else:
                        sim.net.inject(a, data, (src, port))
            await sim.sleep(25000)      # (long enough for a record cached with a few seconds of TTL to expire and be reaped)
            for (ms, host, dest, data, idx) in sim.net.log[base:]:
                trace.append(('send', ms - t0[0], dest, data))
            await br.async_cancel()
            await a.azc.async_close()
        sim.run(main())
        esc = list(sim.loop.escaped)
    return trace, esc


def canon_trace(trace):
    from zeroconf._protocol.incoming import DNSIncoming
    out = []
    for e in trace:
        if e[0] == 'cb':
            out.append(e)
        else:
            m = DNSIncoming(e[3])
            recs = sorted((type(r).__name__, r.name.lower(), r.type, r.ttl) for r in m.answers())
            out.append(('send', e[1], e[2], m.id, m.flags, tuple((q.name, q.type) for q in m.questions), tuple(recs)))
    return sorted(out, key=repr)


def oracle_history(evs, pool):
    t1, e1 = run_history(evs, pool, False)
    t2, e2 = run_history(evs, pool, True)
    if e1 or e2:
        return f"exception in the event loop: {(e1 + e2)[0]}", ()
    c1, c2 = canon_trace(t1), canon_trace(t2)
    if c1 == c2:
        return None, ()
    extra = [x for x in c2 if x not in c1 or c2.count(x) > c1.count(x)]
    missing = [x for x in c1 if x not in c2]
    has_qu = any(n in QU_NAMES for _, n, _, _ in evs)
    # a query containing a QU question may be answered by unicast twice
    extra_non_ucast = [x for x in extra if not (x[0] == 'send' and x[2] is not None and x[2][0] not in ('224.0.0.251', 'ff02::fb'))]
    if not missing and not extra_non_ucast and has_qu:
        return None, ()
    tags = ()
    # the earliest divergence decides. A query with a QU question is exempt from the duplicate guard, so its second copy is handled as a
    # new query (known finding): its multicast answer goes out twice, or - when the second handling adds a later group to the aggregation
    # queue - the one answer is held back until the 500 ms bound of the first group (and with it the instance's own loop-back callbacks)
    diffs = sorted([('extra', x) for x in extra_non_ucast] + [('missing', x) for x in missing], key=lambda d: d[1][1])
    if diffs:
        # (the second handling may put its answer into the protected queue: up to 1 s + 200 ms + jitter later). Every difference must lie in
        # such a window: one that does not is not explained by the finding
        def near_qu(tt):
            return any(n in QU_NAMES and 0 <= tt - dt <= 1400 for dt, n, _, _ in evs)
        if all(near_qu(d[1][1]) for d in diffs):
            tags = ('qu_double_multicast',)
    return (f"doubling every datagram changed the observable behaviour: extra {str(extra_non_ucast)[:500]} missing {str(missing)[:300]}"), tags


def jsonable(x):
    from props.c05 import jsonable as j
    return j(x)


def run(ctx):
    ok = ctx.build(TARGETS)
    if ok:
        ok = ctx.assumptions()
    ctx.count_obligations('Props/C16.v')
    rng = ctx.rng
    pool = datagram_pool()
    pool['respY'] = r_bytes([rec('KPointer', '_u._udp.local.', 12, 1, alias='y._u._udp.local.', ttl=4500)])
    pool['bye'] = r_bytes([rec('KPointer', '_u._udp.local.', 12, 1, alias='y._u._udp.local.', ttl=0)])
    quick = ctx.tier == 'quick'
    coq_cases = []
    for _ in range(500 if quick else 6000):
        seq = gen_listener_seq(rng, pool)
        labels, obs = run_listener(seq, pool)
        coq_cases.append((clist(labels), obs, seq))
        ctx.count(('l', repr(seq)), nontrivial=len(seq) > 1)
        for o in obs:
            ctx.hist('listener:' + {1: 'oversize', 2: 'duplicate', 3: 'invalid', 4: 'response', 5: 'no-registry', 6: 'deferred', 7: 'respond', 0: '?'}[o[0]])
    fails = []
    for k in range(len(CORPUS) + (120 if quick else 2500)):
        evs = CORPUS[k] if k < len(CORPUS) else gen_history(rng, pool)
        why, tags = oracle_history(evs, pool)
        if why:
            fails.append((evs, why, tags))
        ctx.count(('h', repr(evs)), nontrivial=True)
        for e in evs:
            ctx.hist('history:' + e[1])
    ctx.sample({'listener_sequence(dt, datagram, source, has_entries, tc_delay)': jsonable(coq_cases[0][2])})
    ctx.sample({'doubled_history(dt, datagram, source, port)': jsonable(gen_history(rng, pool))})
    ctx.cov['rule'] = ("(1) datagram sequences for one socket from a pool (QM, QU, mixed, TC trains with equal/different content, responses, invalid, oversize, empty), "
                       "back-to-back repeats at 0/1/999/1000 ms from the same or another source, registry empty or not: every datagram_received and TC-timer run is a label "
                       "replayed through the model; (2) traffic histories against a host with a registered service and a browser, every datagram doubled vs. not doubled "
                       "under identical random streams, compared on the network trace and callback log. distinct = distinct sequences")
    reported = 0
    for evs, why, tags in fails:
        if reported >= 3:
            break
        if ctx.violation({'kind': 'oracle', 'why': why, 'history': jsonable(evs), 'broken': None if ok else ctx.build_msg}, tags=tags):
            reported += 1
    if not ok:
        if not ctx.violations:
            ctx.violation({'kind': 'broken-obligation', 'broken': ctx.build_msg}, no_input=True)
        return ctx.finish()
    mism = ctx.run_cases('Model.Base Model.Listener Corr.C16', 'list llabel', 'c16_run', [(c, o) for c, o, _ in coq_cases], shard=60)
    ctx.cov['traces_validated_against_impl'] = len(coq_cases) - len(mism)
    for idx, model_out in mism[:3]:
        ctx.violation({'kind': 'correspondence', 'what': 'Model.Listener disagrees with AsyncListener', 'sequence': jsonable(coq_cases[idx][2]),
                       'implementation': str(coq_cases[idx][1])[:1500], 'model': model_out[:1500]}, no_input=True)
    return ctx.finish()


def replay(ctx, path):
    r = json.load(open(path))
    if 'history' not in r:
        return run(ctx)
    pool = datagram_pool()
    pool['respY'] = r_bytes([rec('KPointer', '_u._udp.local.', 12, 1, alias='y._u._udp.local.', ttl=4500)])
    pool['bye'] = r_bytes([rec('KPointer', '_u._udp.local.', 12, 1, alias='y._u._udp.local.', ttl=0)])
    why, tags = oracle_history([tuple(e) for e in r['history']], pool)
    print("replay:", f"still fails: {why}" if why else "passes")
    return 1 if why else 0
