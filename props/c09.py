"""C09 - registration probes first, detects conflicts, then announces completely.
Model: coq/Model/Register.v (async_check_service as a resumable coroutine, the announcement task) composed into the node LTS
coq/Model/Node.v; theorems coq/Props/C09.v.  Tie: a real Zeroconf instance runs the scenario on the virtual-time simulator,
lib/nodesim.py logs every handler invocation as a label and Corr.Node.node_run replays exactly that label sequence.
An independent oracle judges the property on the datagrams the instance actually transmitted."""
import json

from lib import common, refcache
from lib.cachesim import rec
from lib.nodesim import NodeRecorder
from lib.simloop import Sim
from props import c03

TARGETS = ['Props/C09.vo', 'Corr/Node.vo']
GRID = [-3000, -1, 0, 1, 100, 174, 175, 176, 300, 349, 350, 351, 400, 524, 525, 526, 700, 875, 1000]


def gen_scenario(rng):
    T = rng.choice(['_t._tcp.local.', '_u._udp.local.'])
    inst = rng.choice(['x', 'My Printer', 'x-2', 'y'])
    name = f"{inst}.{T}"
    fam = rng.choice(['v4', 'v6', 'dual', 'dual'])
    s = dict(type=T, name=name, server=rng.choice(['h.local.', name]), port=rng.choice([80, 8080]), weight=rng.choice([0, 1]),
             priority=rng.choice([0, 5]), text=rng.choice([b'', b'\x03a=b']), host_ttl=rng.choice([120, 60]), other_ttl=rng.choice([4500, 100]),
             v4=[bytes([10, 0, 0, i]) for i in rng.sample([1, 2, 3], rng.randint(1, 2))] if fam in ('v4', 'dual') else [],
             v6=[bytes([0xfe, 0x80] + [0] * 13 + [i]) for i in rng.sample([1, 2], rng.randint(1, 2))] if fam in ('v6', 'dual') else [])
    allow = rng.random() < 0.65
    cand = [name] + [f"{inst}-{k}.{T}" for k in (2, 3, 4, 5)]

    def ptr(alias, ttl):
        return rec('KPointer', T, 12, 1, alias=alias, ttl=ttl)
    pre = []
    # a chain of names already taken (or taken once and expired / said goodbye) before the registration starts
    for alias in cand[:rng.choice([0, 0, 1, 2, 3, 4])]:
        st = rng.choice(['fresh', 'fresh', 'fresh', 'expired', 'goodbye', 'recased'])
        if st == 'fresh':
            pre.append((-rng.choice([1, 1000, 60000]), [ptr(alias, 4500)]))
        elif st == 'expired':
            pre.append((-rng.choice([1125001, 1126000]), [ptr(alias, 1125)]))
        elif st == 'goodbye':
            pre.append((-5000, [ptr(alias, 4500)]))
            pre.append((-rng.choice([3000, 999, 1]), [ptr(alias, 0)]))
        else:
            pre.append((-1000, [ptr(alias.upper() if alias.upper() != alias else alias.lower(), 4500)]))
    pre.sort(key=lambda d: d[0])
    during = []
    for _ in range(rng.choice([0, 1, 1, 2, 3])):
        t = max(0, rng.choice(GRID)) + rng.choice([0, 0, 175, 350])
        alias = rng.choice(cand[:3] + [cand[0], 'other.' + T])
        during.append((t, [ptr(alias, rng.choice([4500, 4500, 4500, 0, 1]))]))
    during.sort(key=lambda d: d[0])
    return dict(svc=s, allow=allow, pre=pre, during=during, loopback=rng.random() < 0.2, again=rng.choice([None, None, 'same', 'same-allow', 'unreg-rereg']),
                rereg_conflict=rng.random() < 0.5,      # (unreg-rereg) somebody else advertises the name while it is unregistered
                lead=max([-p[0] for p in pre] + [0]) + 20000, mcast=[rng.choice([20, 70, 120]) for _ in range(30)])


def parse(data):
    from zeroconf import DNSIncoming
    return DNSIncoming(data)


def run_scenario(sc):
    from props.c04 import build_response
    from zeroconf import DNSOutgoing, DNSQuestion, const
    res = {'outcomes': []}
    with Sim(loopback=sc['loopback']) as sim:
        holder = {}

        async def main():
            nr = NodeRecorder(sim).install()
            holder['nr'] = nr
            a = await sim.start_host('A', '10.0.0.1', 'fe80::1', families=('v4',))
            nr.attach(a)
            sim.randoms['mcast_delay'] = list(sc['mcast'])
            t0 = sim.now + sc['lead']
            res['arrivals'] = []
            for (dt, recs) in sc['pre']:
                await sim.sleep_until(t0 + dt)
                res['arrivals'].append((sim.now, recs))
                sim.net.inject(a, build_response(recs), ('10.0.0.9', 5353))
            await sim.sleep_until(t0)
            res['t0'] = t0
            info = c03.mk_info(sc['svc'])
            rid, task = nr.register(info, allow_name_change=sc['allow'])
            import asyncio

            async def inject_during():
                for (dt, recs) in sc['during']:
                    await sim.sleep_until(t0 + dt)
                    res['arrivals'].append((sim.now, recs))
                    sim.net.inject(a, build_response(recs), ('10.0.0.9', 5353))
            inj = asyncio.ensure_future(inject_during())
            out = await task
            res['outcomes'].append((sim.now, out[0], type(out[1]).__name__ if out[1] else None, info.name))
            await inj
            await sim.sleep(1500)
            # what does it answer for afterwards: the type, and every candidate name
            res['t_query'] = sim.now
            q = DNSOutgoing(const._FLAGS_QR_QUERY)
            q.add_question(DNSQuestion(sc['svc']['type'], const._TYPE_PTR, const._CLASS_IN))
            inst = sc['svc']['name'][:-len(sc['svc']['type']) - 1]
            for nm in [sc['svc']['name']] + [f"{inst}-{k}.{sc['svc']['type']}" for k in (2, 3, 4, 5)]:
                q.add_question(DNSQuestion(nm, const._TYPE_SRV, const._CLASS_IN))
            for p in q.packets():
                sim.net.inject(a, p, ('10.0.0.7', 5353))
            await sim.sleep(1500)
            res['names_after_first'] = sorted(a.zc.registry._services)
            if sc['again'] in ('same', 'same-allow'):
                info2 = c03.mk_info(sc['svc'])
                rid2, task2 = nr.register(info2, allow_name_change=sc['again'] == 'same-allow')
                out2 = await task2
                res['outcomes'].append((sim.now, out2[0], type(out2[1]).__name__ if out2[1] else None, info2.name))
            elif sc['again'] == 'unreg-rereg' and out[0] == 'ok':
                await (await a.zc.async_unregister_service(info))
                await sim.sleep(1100)
                if sc.get('rereg_conflict'):
                    recs = [rec('KPointer', sc['svc']['type'], 12, 1, alias=info.name, ttl=4500)]
                    res['arrivals'].append((sim.now, recs))
                    sim.net.inject(a, build_response(recs), ('10.0.0.9', 5353))
                await sim.sleep(100)
                res['t_rereg'] = sim.now
                rid2, task2 = nr.register(info, allow_name_change=sc['allow'])
                out2 = await task2
                res['outcomes'].append((sim.now, out2[0], type(out2[1]).__name__ if out2[1] else None, info.name))
            res['names_final'] = sorted(a.zc.registry._services)
            await sim.sleep(1000)
            res['t_end'] = sim.now
            nr.uninstall()
            await a.azc.async_close()
        try:
            sim.run(main())
        finally:
            if 'nr' in holder:
                holder['nr'].uninstall()
        res['escaped'] = list(sim.loop.escaped)
        res['wire'] = [(ms, dest, data) for (ms, host, dest, data, idx) in sim.net.log if host == 'A' and ms <= res.get('t_end', 1 << 60)]
    res['labels'], res['obs'] = holder['nr'].labels, holder['nr'].obs
    return res


class NoProbes:
    names = details = recs = servers = alias = []


def oracle(sc, res):
    if res['escaped']:
        return f"exception in the event loop: {res['escaped'][0]}"
    T = sc['svc']['type']
    base = sc['svc']['name']
    inst = base[:-len(T) - 1]
    t0 = res['t0']
    # the cache as an RFC 6762 cache would hold it (lib/refcache.py): when is a name "already advertised"?
    arrivals = sorted(res['arrivals'], key=lambda a: a[0])

    def taken(alias, t, strictly_before=False):
        """an unexpired pointer T -> alias learned before (or at) t"""
        rc = refcache.RefCache(NoProbes())
        for (ta, recs) in arrivals:
            if ta > t or (strictly_before and ta == t):
                break
            rc.event(('resp', ta, recs, []))
        return any(d['kind'] == 'KPointer' and d['name'].lower() == T.lower() and d['alias'] == alias and d['created'] + 1000 * d['ttl'] > t
                   for d in rc.flat.values())
    first = res['outcomes'][0]
    t_first_done = first[0]
    probes, announces = [], []
    for (ms, dest, data) in res['wire']:
        if ms > t_first_done + 1000 or ms < t0:
            continue
        m = parse(data)
        if m.is_query():
            if not sc['loopback'] or m.questions:
                probes.append((ms, m))
        elif dest is not None and dest[0] in ('224.0.0.251', 'ff02::fb') and any(r.type == 12 for r in m.answers()):
            announces.append((ms, m))
    # --- probes: shape ---
    for ms, m in probes:
        qs = m.questions
        auth = m.answers()
        if len(qs) != 1 or qs[0].name != T or qs[0].type != 12 or not qs[0].unique:
            return f"probe at +{ms - t0} is not a single QU PTR question for {T}: {qs}"
        if len(auth) != 1 or auth[0].type != 12 or auth[0].name != T or m.num_authorities != 1:
            return f"probe at +{ms - t0} does not carry the proposed pointer in the authority section"
        # (records arriving at the very instant of the probe may have been processed before or after it: taken under both orders)
        if taken(auth[0].alias, ms, strictly_before=True) and taken(auth[0].alias, ms):
            return f"probe for {auth[0].alias!r} sent at +{ms - t0} although the cache already held an unexpired pointer for that name"
    # --- the sequence of names probed: base, then -2, -3, ... each abandoned name taken when it was abandoned ---
    seq = []
    for ms, m in probes:
        alias = m.answers()[0].alias
        if not seq or seq[-1][0] != alias:
            seq.append([alias, []])
        seq[-1][1].append(ms)
    if first[1] == 'ok':
        final = first[3]
        if not seq or seq[-1][0] != final:
            return f"registered as {final!r} but the last probes were for {seq[-1][0] if seq else None!r}"
        ts = seq[-1][1]
        if len(ts) < 3 or ts[-1] - ts[-2] != 175 or ts[-2] - ts[-3] != 175:
            return f"{final!r} registered after probes at {[t - t0 for t in ts]} (+ms): not three probes 175 ms apart"
        if len(ts) > 3:
            return f"more than three probes for the name that was registered: {[t - t0 for t in ts]}"
        if taken(final, ts[-1], strictly_before=True) and taken(final, ts[-1]):
            return f"{final!r} registered although an unexpired pointer for it was in the cache before the last probe check"
        # numbering: the final name is the base or base-N; every name before it in the chain was either probed and abandoned or skipped,
        # and each of them was taken at some instant of the check
        chain = [base] + [f"{inst}-{k}.{T}" for k in range(2, 40)]
        if final not in chain:
            return f"registered under {final!r}, not the proposed name or a '-N' variant of it"
        if not sc['allow'] and final != base:
            return "renamed although allow_name_change was False"
        for nm in chain[:chain.index(final)]:
            if not any(taken(nm, t) or taken(nm, t, True) for t in _instants(res, t0, ts[-1])):
                return f"{nm!r} was passed over although no unexpired pointer for it was ever in the cache during the check"
        # --- announcements ---
        ann = [(ms, m) for ms, m in announces if ms >= ts[-1]]
        early = [(ms, m) for ms, m in announces if ms < ts[-1]]
        if early:
            return f"announcement at +{early[0][0] - t0} before the third probe at +{ts[-1] - t0}"
        if sc['loopback']:
            # the instance hears (and answers) its own probes and queries: keep the announcement task's own three messages
            times = [ms for ms, _ in ann]
            starts = [a for a in times if a + 225 in times and a + 450 in times]
            if not starts:
                return f"multicast responses at {[ms - t0 for ms in times]} (+ms) contain no three announcements 225 ms apart"
            picked = []
            for want_t in (starts[0], starts[0] + 225, starts[0] + 450):
                cands = [(ms, m) for ms, m in ann if ms == want_t]
                good = [c for c in cands if _check_announcement(c[1], sc['svc'], final) is None]
                picked.append((good or cands)[0])
            ann = picked
        if len(ann) != 3:
            return f"{len(ann)} announcements after registration, expected 3"
        if ann[0][0] < ts[-1] or ann[1][0] - ann[0][0] != 225 or ann[2][0] - ann[1][0] != 225:
            return f"announcements at {[ms - t0 for ms, _ in ann]} (+ms): not 225 ms apart after the last probe at +{ts[-1] - t0}"
        for ms, m in ann:
            why = _check_announcement(m, sc['svc'], final)
            if why:
                return f"announcement at +{ms - t0}: {why}"
    else:
        if first[2] == 'NonUniqueNameException':
            if sc['allow']:
                return "NonUniqueNameException although renaming was allowed"
            if not any(taken(base, t) or taken(base, t, True) for t in _instants(res, t0, first[0])):
                return "NonUniqueNameException although no unexpired pointer for the name was ever in the cache"
        elif first[2] != 'BadTypeInNameException':
            return f"registration failed with {first[2]}"
        if announces:
            return f"announcement at +{announces[0][0] - t0} although registration failed"
    # --- afterwards: nothing is announced or answered for any name other than the registered ones ---
    held_all = set(res['names_final']) | set(res['names_after_first'])
    for (ms, dest, data) in res['wire']:
        m = parse(data)
        if m.is_query():
            continue
        # (once the service has been unregistered and is being registered again, only what that second registration ends up with is held)
        held = set(res['names_final']) if 't_rereg' in res and ms >= res['t_rereg'] else held_all
        for r in m.answers():
            if r.ttl > 0 and r.type == 12 and r.name == T and r.alias.lower() not in held:
                return f"pointer to {r.alias!r} transmitted at +{ms - t0} but that name is not registered"
            if r.ttl > 0 and r.type in (33, 16, 47) and r.name.lower().endswith('.' + T.lower()) and r.name.lower() not in held:
                return f"record of type {r.type} for {r.name!r} transmitted at +{ms - t0} but that name is not registered"
    if len(set(res['names_final'])) != len(res['names_final']):
        return "the registry holds the same name twice"
    for o in res['outcomes'][1:]:
        if o[1] == 'ok' and sc['again'] in ('same', 'same-allow') and o[3].lower() == first[3].lower() and first[1] == 'ok':
            return f"the name {o[3]!r} was registered twice on one instance"
    return None


def _instants(res, lo, hi):
    """the instants at which the probing coroutine looked at the cache: its label times"""
    out = set()
    for lab in res['labels']:
        if lab.startswith('LRegister') or lab.startswith('LCheck'):
            t = int(lab.split()[2].strip('()'))
            if lo <= t <= hi:
                out.add(t)
    return out


def _check_announcement(m, s, final):
    recs = m.answers()
    T = s['type']
    server = s['server']

    def find(pred):
        return [r for r in recs if pred(r)]
    ptrs = find(lambda r: r.type == 12)
    if len(ptrs) != 1 or ptrs[0].name != T or ptrs[0].alias != final or ptrs[0].unique or ptrs[0].ttl != s['other_ttl']:
        return f"PTR section wrong: {ptrs}"
    srvs = find(lambda r: r.type == 33)
    if len(srvs) != 1 or srvs[0].name != final or not srvs[0].unique or srvs[0].port != s['port'] or srvs[0].server != server \
            or srvs[0].ttl != s['host_ttl'] or srvs[0].priority != s['priority'] or srvs[0].weight != s['weight']:
        return f"SRV wrong: {srvs}"
    txts = find(lambda r: r.type == 16)
    if len(txts) != 1 or txts[0].name != final or not txts[0].unique or bytes(txts[0].text) not in ((s['text'],) if s['text'] else (b'', b'\x00')) or txts[0].ttl != s['other_ttl']:
        return f"TXT wrong: {txts}"
    addrs = find(lambda r: r.type in (1, 28))
    want = sorted([(1, a) for a in s['v4']] + [(28, a) for a in s['v6']])
    got = sorted((r.type, bytes(r.address)) for r in addrs)
    if got != want:
        return f"addresses {got} != {want}"
    if any((not r.unique) or r.name != server or r.ttl != s['host_ttl'] for r in addrs):
        return "address record without cache-flush bit / wrong owner / wrong ttl"
    missing = [t for t, l in ((1, s['v4']), (28, s['v6'])) if not l]
    nsec = find(lambda r: r.type == 47)
    if missing:
        if len(nsec) != 1 or not nsec[0].unique or sorted(nsec[0].rdtypes) != missing:
            return f"NSEC wrong: {nsec}"
    elif nsec:
        return f"unexpected NSEC: {nsec}"
    if len(recs) != 3 + len(addrs) + len(nsec):
        return f"unexpected extra records: {recs}"
    return None


def jsonable(x):
    from props.c05 import jsonable as j
    return j(x)


def check_scenarios(ctx, scenarios, runner, oracle_fn, tag, what):
    """shared by C08/C09/C17: run, judge, replay through the model"""
    coq_cases, fails = [], []
    for sc in scenarios:
        res = runner(sc)
        why = oracle_fn(sc, res)
        if why:
            fails.append((sc, why))
        coq_cases.append((common.clist(res['labels']), res['obs'], sc))
        ctx.count(repr(sc), nontrivial=len(res['labels']) > 3)
        yield sc, res, why
    for sc, why in fails[:3]:
        ctx.violation({'kind': 'oracle', 'why': why, 'scenario': jsonable(sc)})
    ctx._node_cases = coq_cases
    ctx._node_fails = fails
    ctx._node_runner, ctx._node_oracle = runner, oracle_fn


def replay_model(ctx, ok, what, vary=None, budget=500):
    """vary(scenario, rng) -> a variant of a scenario on which model and implementation disagree: when no failing input is known yet, up to
    `budget` variants are run through the implementation and judged by the oracle alone (the search for a failing input)"""
    coq_cases = ctx._node_cases
    if not ok:
        if not ctx.violations:
            ctx.violation({'kind': 'broken-obligation', 'broken': ctx.build_msg}, no_input=True)
        return
    try:
        mism = ctx.run_cases('Model.Base Model.PyRec Model.Respond Model.Register Model.Node Model.ValSet Corr.Node', 'list nlabel', 'node_run',
                             [(c, o) for c, o, _ in coq_cases], shard=max(5, len(coq_cases) // (2 * common.NPROC) + 1), mismatch_fn='mismatches_u',
                             tag=ctx.prop.lower() + '_node')
    except RuntimeError as e:
        # the implementation produced a label sequence the model cannot even read (e.g. a handler died half-way)
        ctx.violation({'kind': 'correspondence', 'what': what + ': the logged label sequence could not be replayed', 'error': str(e)[-1500:]}, no_input=True)
        return
    ctx.cov['traces_validated_against_impl'] = len(coq_cases) - len(mism)
    if mism and vary is not None and not ctx._node_fails:
        found = tried = 0
        seeds = [coq_cases[idx][2] for idx, _ in mism[:10]]
        while tried < budget and found < 2:
            sc = vary(seeds[tried % len(seeds)], ctx.rng)
            tried += 1
            try:
                why = ctx._node_oracle(sc, ctx._node_runner(sc))
            except Exception as e:  # noqa: BLE001  (a variant the harness cannot run is no verdict)
                continue
            if why:
                found += 1
                ctx.violation({'kind': 'oracle', 'found_by': 'search among variants of a scenario on which model and implementation disagree',
                               'why': why, 'scenario': jsonable(sc)})
        ctx.cov['failing_input_search'] = f"{tried} variants, {found} failing"
    for idx, model_out in mism[:3]:
        from lib import valparse
        try:
            diff = valparse.first_diff(valparse.canon(valparse.parse(model_out)), valparse.canon(valparse.to_plain(coq_cases[idx][1])))
        except Exception as e:  # noqa: BLE001
            diff = f"(diff unavailable: {e})"
        ctx.violation({'kind': 'correspondence', 'what': what, 'scenario': jsonable(coq_cases[idx][2]), 'first_difference': str(diff)[:2000],
                       'model': model_out[:3000], 'implementation': str(coq_cases[idx][1])[:3000]}, no_input=True)


def run(ctx):
    ok = ctx.build(TARGETS)
    if ok:
        ok = ctx.assumptions()
    ctx.count_obligations('Props/C09.v')
    rng = ctx.rng
    n = 300 if ctx.tier == 'quick' else 4000
    scenarios = [gen_scenario(rng) for _ in range(n)]
    for sc, res, why in check_scenarios(ctx, scenarios, run_scenario, oracle, 'c09', ''):
        first = res['outcomes'][0]
        ctx.hist('outcome:' + (first[1] if first[1] == 'ok' else str(first[2])))
        if first[1] == 'ok':
            ctx.hist('renamed' if first[3] != sc['svc']['name'] else 'kept-name')
        ctx.hist(f"conflict-arrivals:{len(sc['during'])}")
        ctx.hist('loopback' if sc['loopback'] else 'no-loopback')
        ctx.hist(f"again:{sc['again']}")
    ctx.sample(jsonable(scenarios[0]))
    ctx.cov['rule'] = ("one instance on the virtual-time simulator; a service (v4/v6/dual addresses, custom TTLs, instance names incl. one ending in '-2') "
                       "registered with/without allow_name_change against a cache pre-populated with 0-4 names of the '-N' chain (fresh, expired, "
                       "said goodbye, re-cased) and 0-3 conflicting pointers arriving on a grid around the three probe instants (+-1 ms, TTL 4500/1/0); "
                       "followed by queries for every candidate name, an optional second registration of the same name or unregister/re-register; "
                       "distinct = distinct scenarios; non-trivial = more than three labels")
    replay_model(ctx, ok, 'Model.Node (registration life cycle) disagrees with the implementation')
    return ctx.finish()


def replay(ctx, path):
    from props.c05 import unjson
    r = json.load(open(path))
    if 'scenario' not in r:
        return run(ctx)
    sc = unjson(r['scenario'])
    for k in ('pre', 'during'):
        sc[k] = [tuple(d) for d in sc[k]]
    res = run_scenario(sc)
    why = oracle(sc, res)
    print("replay:", f"still fails: {why}" if why else "passes")
    return 1 if why else 0
