"""C04 - browser callbacks alternate add/remove and always match the cache.
C10 - browser keeps learned services alive: refresh queries, rate limit, liveness (props/c10.py sets FOCUS).
Model: coq/Model/Browser.v (= Ingest + pending de-duplication + Sched). The harness runs a real AsyncServiceBrowser on the
virtual-time loop, logs every handler invocation (datagram, purge, scheduler timer, listener registration) as a label and the
model replays exactly that label sequence (M9)."""
import json

from lib import cachesim, common
from lib.cachesim import rec, coq_rec
from lib.common import cz, ctext, cbool, clist
from lib.simloop import Sim

TARGETS_FOR = {'C04': ['Props/C04.vo', 'Corr/C04.vo'], 'C10': ['Props/C10.vo', 'Corr/C04.vo']}
SETTAG = -7777
T1, T2 = '_t._tcp.local.', '_u._udp.local.'


def vset(x):
    return [SETTAG, list(x)]


# ------------------------------------------------------------------------------------------------
# scenario generator
# ------------------------------------------------------------------------------------------------

def gen_scenario(rng, focus):
    types = rng.choice([[T1], [T1], [T1, T2]])
    delay = rng.choice([10000, 10000, 1000, 60000]) if focus == 'C10' else 10000
    qnone = rng.random() < 0.8
    insts = ['x', 'y', 'z', 'X']
    evs = []
    t = 0
    browse_at = rng.choice([0, 0, 0, rng.randint(1, 3)])
    n = rng.randint(2, 9)
    violates_hyp = False
    for i in range(n):
        if i == browse_at:
            evs.append(('browse', t, rng.choice([20, 57, 120])))
            t += rng.choice([1, 7, 300, 1500, 16003])      # (time between the browser's creation and the next datagram)
        typ = rng.choice(types + ([T2] if rng.random() < 0.2 else []))
        recs = []
        for _ in range(rng.choice([1, 1, 2, 3])):
            k = rng.random()
            inst = rng.choice(insts)
            if k < 0.6:
                ttl = rng.choice([0, 0, 120, 1125, 1200, 2000, 4500, 4500, 9000] if focus == 'C10' else [0, 0, 1, 120, 1125, 4500, 4500])
                recs.append(rec('KPointer', typ, 12, rng.choice([1, 1, 0x8001]) if focus == 'C04' else 1, alias=f'{inst}.{typ}', ttl=ttl))   # C10: shared records never carry the flush bit
            elif k < 0.75:
                recs.append(rec('KService', f'{inst}.{typ}', 33, 0x8001, port=80, server='h.local.', ttl=rng.choice([0, 120])))
            elif k < 0.87:
                recs.append(rec('KText', f'{inst}.{typ}', 16, 0x8001, text=b'\x01a', ttl=rng.choice([0, 4500])))
            else:
                recs.append(rec('KAddress', 'h.local.', 1, 0x8001, address=bytes([10, 0, 0, rng.randint(1, 3)]), ttl=rng.choice([0, 120])))
        if focus == 'C10':
            seen_al = set()
            recs = [r for r in recs if r['kind'] != 'KPointer' or not (r['alias'].lower() in seen_al or seen_al.add(r['alias'].lower()))]
        aliases = [r['alias'] for r in recs if r['kind'] == 'KPointer']
        if len({a.lower() for a in aliases}) != len(set(aliases)):
            violates_hyp = True      # two names differing only in case inside one datagram
        evs.append(('resp', t, recs))
        if focus == 'C04' and rng.random() < 0.12:
            # somebody else on the instance starts listening with a question (another browser, for a type nobody announces): since the repair
            # 8ab9054 that reaps the expired records first - for the browser under test a cache cleanup that is not on the 10 s grid
            evs.append(('listener2', t + rng.choice([1, 999, 5000, 130000, 1130000])))
        if focus == 'C10':
            t += rng.choice([3, 501, 1003, 9001, 20007, 60011, 400003, 843751 + 3, 900001, 1125007, 3375000 + 7, 4000003])
        else:
            # (600 s and 3000 s: past half of a pointer's 1125 s / 4500 s lifetime but before its end)
            t += rng.choice([0, 1, 999, 1000, 1001, 2003, 9999, 10001, 20007, 119999, 120001, 600001, 1125001, 3000001, 4500001])
    if browse_at >= n:
        evs.append(('browse', t, 20))
    horizon = t + rng.choice([1000, 30000, 5000000] if focus == 'C04' else [20000, 2000000, 6000000])
    return dict(types=types, delay=delay, qnone=qnone, events=evs, horizon=horizon, violates_hyp=violates_hyp)


# the two scheduler defects of the pinned tree (repaired): a shorter-lived record learned after a longer-lived one, and a
# rescue query that is due before a later heap entry
CORPUS_C10 = [
    dict(types=[T1], delay=10000, qnone=True, violates_hyp=False, horizon=1400000,
         events=[('browse', 0, 20), ('resp', 20000, [rec('KPointer', T1, 12, 1, alias='x.' + T1, ttl=4500)]),
                 ('resp', 60000, [rec('KPointer', T1, 12, 1, alias='y.' + T1, ttl=1200)])]),
    dict(types=[T1], delay=1000, qnone=True, violates_hyp=False, horizon=3400000,
         events=[('browse', 0, 57), ('resp', 2250018, [rec('KPointer', T1, 12, 1, alias='X.' + T1, ttl=9000)]),
                 ('resp', 2250021, [rec('KPointer', T1, 12, 1, alias='x.' + T1, ttl=1125)])]),
    # a refresh with a shorter TTL whose 75 % point coincides with the one already scheduled (no-churn window): the 85 % and 95 % attempts
    # must follow the refreshed record's TTL (repaired defect C10-no-churn-ttl, repro/c10_no_churn_ttl.py)
    dict(types=[T1], delay=10000, qnone=True, violates_hyp=False, horizon=4000000,
         events=[('browse', 0, 20), ('resp', 20000, [rec('KPointer', T1, 12, 1, alias='x.' + T1, ttl=4500)]),
                 ('resp', 20000 + 2531250, [rec('KPointer', T1, 12, 1, alias='x.' + T1, ttl=1125)])]),
    dict(types=[T1], delay=10000, qnone=False, violates_hyp=False, horizon=4200000,
         events=[('browse', 0, 57), ('resp', 50000, [rec('KPointer', T1, 12, 1, alias='y.' + T1, ttl=4500)]),
                 ('resp', 50000 + 1875000, [rec('KPointer', T1, 12, 1, alias='y.' + T1, ttl=2000)])]),
    # churn inside the no-reschedule window: learned, withdrawn and learned again within the inter-query delay, then left alone until it expires
    dict(types=[T1], delay=10000, qnone=True, violates_hyp=False, horizon=4700000,
         events=[('browse', 0, 20), ('resp', 30000, [rec('KPointer', T1, 12, 1, alias='x.' + T1, ttl=4500)]),
                 ('resp', 36000, [rec('KPointer', T1, 12, 1, alias='x.' + T1, ttl=0)]),
                 ('resp', 38000, [rec('KPointer', T1, 12, 1, alias='x.' + T1, ttl=4500)])]),
    dict(types=[T1], delay=60000, qnone=False, violates_hyp=False, horizon=1300000,
         events=[('browse', 0, 57), ('resp', 20000, [rec('KPointer', T1, 12, 1, alias='y.' + T1, ttl=1125)]),
                 ('resp', 21000, [rec('KPointer', T1, 12, 1, alias='y.' + T1, ttl=0)]),
                 ('resp', 50000, [rec('KPointer', T1, 12, 1, alias='y.' + T1, ttl=1125)])]),
]


# ------------------------------------------------------------------------------------------------
# run on the real stack, logging labels
# ------------------------------------------------------------------------------------------------

def build_response(recs):
    from zeroconf import DNSOutgoing
    o = DNSOutgoing(0x8400)
    for r in recs:
        o.add_answer_at_time(cachesim.mk(r), 0)
    ps = o.packets()
    assert len(ps) == 1
    return ps[0]


def run_scenario(sc):
    """-> dict(labels=[(label, obs)], callbacks=[...], sends=[...], live checks, escaped)"""
    import zeroconf._engine as zengine
    import zeroconf._services.browser as zbrowser
    import zeroconf._handlers.record_manager as zrm
    from zeroconf.asyncio import AsyncServiceBrowser
    from zeroconf._services import ServiceStateChange
    labels = []          # [label tuple, {'cb': [...], 'sends': [...]}]
    cur = {'cb': [], 'sends': []}
    out = {'violations': []}
    with Sim() as sim:
        def begin(label):
            nonlocal cur
            cur = {'cb': [], 'sends': []}
            labels.append([label, cur])

        orig_cleanup = zengine.AsyncEngine._async_cache_cleanup
        orig_startup = zbrowser.QueryScheduler._process_startup_queries
        orig_ready = zbrowser.QueryScheduler._process_ready_types
        orig_start = zbrowser.QueryScheduler.start
        orig_send = zbrowser.QueryScheduler.async_send_ready_queries
        orig_listen = zrm.RecordManager.async_add_listener
        state = {'browser': None, 'zc': None}

        def cleanup(self):
            begin(('purge', sim.now))
            orig_cleanup(self)
            check_live('purge')

        def startup(self):
            begin(('fire', sim.now))
            orig_startup(self)

        def ready(self):
            begin(('fire', sim.now))
            orig_ready(self)

        def start(self, loop):
            n0 = len(sim.random_log)
            orig_start(self, loop)
            begin(('start', sim.now, sim.random_log[n0][2]))

        def send(self, first_request, now_millis, ready_types):
            cur['sends'].append([int(now_millis), bool(first_request and self._question_type is None), vset(sorted(ready_types))])
            out.setdefault('sends', []).append((int(now_millis), bool(first_request and self._question_type is None), sorted(ready_types)))
            orig_send(self, first_request, now_millis, ready_types)

        def listen(self, listener, question):
            if question is not None:
                begin(('purge', sim.now) if state.get('second_listener') else ('listen', sim.now))
            orig_listen(self, listener, question)

        orig_resp = zrm.RecordManager.async_updates_from_response

        def from_response(self, msg):
            lab = state.pop('pending', None)
            if lab is not None:
                begin(lab)
            orig_resp(self, msg)
        zrm.RecordManager.async_updates_from_response = from_response
        zengine.AsyncEngine._async_cache_cleanup = cleanup
        zbrowser.QueryScheduler._process_startup_queries = startup
        zbrowser.QueryScheduler._process_ready_types = ready
        zbrowser.QueryScheduler.start = start
        zbrowser.QueryScheduler.async_send_ready_queries = send
        zrm.RecordManager.async_add_listener = listen
        callbacks = []

        def check_live(where):
            """quiescent point: instances Added and not Removed == PTR records of the type in the cache (case-insensitively)"""
            zc = state['zc']
            if state['browser'] is None or zc is None:
                return
            for ty in sc['types']:
                live = set()
                for (t, kind, typ, name) in callbacks:
                    if typ != ty:
                        continue
                    if kind == 'add':
                        live.add(name.lower())
                    elif kind == 'rem':
                        live.discard(name.lower())
                cached = {r.alias.lower() for r in zc.cache.entries_with_name(ty) if r.type == 12}
                if live != cached:
                    out['violations'].append(f"after {where} at +{sim.now - out['t0']}: live {sorted(live)} != cached pointers {sorted(cached)} for {ty}")

        class Listener:
            def add_service(self, zc, typ, name):
                callbacks.append((sim.now, 'add', typ, name))
                cur['cb'].append([name, typ, 1])
                # a lookup from inside add_service sees the records of the triggering datagram
                if not any(r.type == 12 and r.alias == name for r in zc.cache.entries_with_name(typ)):
                    out['violations'].append(f"add_service({name}) delivered before the pointer is in the cache")

            def remove_service(self, zc, typ, name):
                callbacks.append((sim.now, 'rem', typ, name))
                cur['cb'].append([name, typ, 2])

            def update_service(self, zc, typ, name):
                callbacks.append((sim.now, 'upd', typ, name))
                cur['cb'].append([name, typ, 3])

        try:
            async def main():
                b = await sim.start_host('B', '10.0.0.2')
                state['zc'] = b.zc
                t0 = sim.now
                out['t0'] = t0
                for ev in sc['events']:
                    await sim.sleep_until(t0 + ev[1])
                    check_live('quiescence before the next event')      # (also right after the browser was created and replayed the cache)
                    if ev[0] == 'browse':
                        sim.randoms['first_query_delay'] = [ev[2]]
                        from zeroconf import DNSQuestionType
                        state['browser'] = AsyncServiceBrowser(b.zc, list(sc['types']), listener=Listener(), delay=sc['delay'],
                                                               question_type=None if sc['qnone'] else DNSQuestionType.QM)
                        out['browse_at'] = sim.now - t0
                    elif ev[0] == 'listener2':
                        from zeroconf import DNSQuestion, RecordUpdateListener

                        class Other(RecordUpdateListener):
                            def async_update_records(self, zc, now, records):
                                pass
                        state['second_listener'] = True
                        b.zc.async_add_listener(Other(), DNSQuestion('_nobody._tcp.local.', 12, 1))
                        state['second_listener'] = False
                        check_live('second listener')
                    else:
                        data = build_response(ev[2])
                        # the label is logged when the record manager gets the message: a datagram byte-identical to the previous one
                        # less than a second earlier is dropped by the listener's duplicate guard (C16) and is not a step of the browser
                        state['pending'] = ('resp', sim.now, ev[2])
                        sim.net.inject(b, data, ('10.0.0.9', 5353))
                        if state.pop('pending', None) is not None:
                            out.setdefault('suppressed', []).append(ev[1])
                        check_live('datagram')
                await sim.sleep_until(t0 + sc['horizon'])
                check_live('end of the history')
                br = state['browser']
                nr = br.query_scheduler._next_run
                out['timer_armed'] = nr is not None and not nr.cancelled()
                await br.async_cancel()
                await b.azc.async_close()
            sim.run(main())
        finally:
            zengine.AsyncEngine._async_cache_cleanup = orig_cleanup
            zbrowser.QueryScheduler._process_startup_queries = orig_startup
            zbrowser.QueryScheduler._process_ready_types = orig_ready
            zbrowser.QueryScheduler.start = orig_start
            zbrowser.QueryScheduler.async_send_ready_queries = orig_send
            zrm.RecordManager.async_add_listener = orig_listen
            zrm.RecordManager.async_updates_from_response = orig_resp
        out['escaped'] = list(sim.loop.escaped)
    out['labels'] = labels
    out['callbacks'] = callbacks
    out.setdefault('sends', [])
    return out


# ------------------------------------------------------------------------------------------------
# oracles
# ------------------------------------------------------------------------------------------------

def oracle_c04(sc, out):
    if out['escaped']:
        return f"exception in the event loop: {out['escaped'][0]}"
    if sc['violates_hyp']:
        return None
    # browsers created while an expired-but-unpurged pointer of their types is cached are outside the quantifier:
    # conservatively skip scenarios where any pointer record reached its expiry before the browser was created
    t0 = out['t0']
    for ev in sc['events']:
        if ev[0] == 'resp' and ev[1] < out.get('browse_at', 0):
            for r in ev[2]:
                if r['kind'] == 'KPointer':
                    ttl = max(r['ttl'], 1125) if r['ttl'] else 0
                    if ev[1] + 1000 * ttl <= out['browse_at'] + 10000:
                        return None
                    if r['cls'] & 0x8000:
                        # a pointer record with the cache-flush bit makes the other cached pointers of its type expire one second
                        # later: they may be expired-but-unpurged when the browser is created (same hypothesis)
                        return None
    per_key = {}
    for (t, kind, typ, name) in out['callbacks']:
        if kind in ('add', 'rem'):
            per_key.setdefault((typ, name.lower()), []).append(kind)
    for key, seq in per_key.items():
        want = 'add'
        for k in seq:
            if k != want:
                return f"callbacks for {key} do not alternate starting with Added: {seq}"
            want = 'rem' if want == 'add' else 'add'
    if out['violations']:
        return out['violations'][0]
    return None


def oracle_c10(sc, out):
    if out['escaped']:
        return f"exception in the event loop: {out['escaped'][0]}", ()
    sends = out['sends']
    t0 = out['t0']
    D = sc['delay']
    b0 = out.get('browse_at')
    if b0 is None:
        return None, ()
    start = [e for e in sc['events'] if e[0] == 'browse'][0]
    first = t0 + b0 + start[2]
    if t0 + sc['horizon'] > first + 14000:
        want = [first, first + 1000, first + 5000, first + 14000]
        got = [s[0] for s in sends[:4]]
        if got != want:
            return f"start-up queries at {[g - t0 for g in got]}, expected {[w - t0 for w in want]} (random delay, then 1 s, 4 s, 9 s apart)", ()
        if sends[0][1] != sc['qnone'] or any(s[1] for s in sends[1:]):
            return "first query must be QU exactly when no question type is forced; later ones never", ()
        for a, b in zip(sends[3:], sends[4:]):
            if b[0] - a[0] < D:
                return f"queries at +{a[0] - t0} and +{b[0] - t0} are less than the configured delay {D} apart", ()
        if not out['timer_armed']:
            return "scheduler timer not armed although the browser is active", ()
    # refresh schedule of every pointer lifetime that is left alone
    life = {}
    events = []
    for ev in sc['events']:
        if ev[0] == 'resp' and ev[1] not in out.get('suppressed', ()):      # a datagram dropped by the duplicate guard taught nothing
            for r in ev[2]:
                if r['kind'] == 'KPointer' and r['name'] in sc['types']:
                    events.append((t0 + ev[1], r['name'], r['alias'].lower(), max(r['ttl'], 1125) if r['ttl'] else 0))
    end = t0 + sc['horizon']
    for i, (c, ty, alias, ttl) in enumerate(events):
        if c < t0 + b0 or ttl == 0:
            continue        # learned before the browser existed: replayed at registration with its original created time
        later = [e for e in events[i + 1:] if e[1] == ty and e[2] == alias]
        until = later[0][0] if later else end
        # first refresh at 75 % of the TTL (a refresh arriving within the configured delay of the scheduled instant does not
        # move it: tolerance D on both sides), then +10 % of the TTL after each query actually sent, until that would pass the expiry
        expiry = c + ttl * 1000
        due = c + ttl * 750
        lo = due - D if any(e[1] == ty and e[2] == alias for e in events[:i]) else due
        step = 0
        while True:
            if due + D >= until or due + D >= end:
                break
            hits = [s for s in sends if ty in s[2] and lo <= s[0] <= due + D]
            if not hits:
                # "until it expires": the only thing that may hold a due step back is the browser's own rate limit (its previous query, of
                # any type, less than the configured delay earlier); when that pushes the step to or past the record's expiry there is
                # nothing left to refresh
                prior = [s[0] for s in sends if s[0] <= due]
                if prior and max(due, max(prior) + D) >= expiry:
                    break
                return (f"pointer {alias} learned at +{c - t0} with ttl {ttl}: no refresh query for {ty} in [+{lo - t0}, +{due + D - t0}] "
                        f"(step {step}: 75 % of the TTL plus {step} x 10 %); queries for the type at {[s[0] - t0 for s in sends if ty in s[2]][-8:]}"), ()
            on_time = [h for h in hits if h[0] >= due]
            if not on_time or hits[0][0] < due:
                # a query before the due instant: the no-churn rule kept the schedule entry of the previous copy of the record (created
                # up to the configured delay earlier, possibly with another TTL, whose 10 % steps differ): the refresh attempts follow
                # that entry and are not tracked further against this copy's TTL
                break
            sent = on_time[0][0]
            due = lo = sent + ttl * 100
            step += 1
            if due >= expiry:
                break
    return None, ()


# ------------------------------------------------------------------------------------------------
# model input / observation
# ------------------------------------------------------------------------------------------------

def coq_labels(out):
    ls = []
    obs = []
    for label, o in out['labels']:
        k = label[0]
        if k == 'resp':
            ls.append(f"XL (BResp {cz(label[1])} {clist(coq_rec(dict(r, created=label[1])) for r in label[2])})")
        elif k == 'purge':
            ls.append(f"XL (BPurge {cz(label[1])})")
        elif k == 'fire':
            ls.append(f"XL (BFire {cz(label[1])})")
        elif k == 'start':
            ls.append(f"XL (BStart {cz(label[1])} {cz(label[2])})")
        elif k == 'listen':
            ls.append(f"XListen {cz(label[1])}")
        obs.append([vset(o['cb']), o['sends']])
    return ls, obs


def jsonable(x):
    from props.c05 import jsonable as j
    return j(x)


def run(ctx, focus='C04'):
    ok = ctx.build(TARGETS_FOR[focus])
    if ok:
        ok = ctx.assumptions()
    ctx.count_obligations(f'Props/{focus}.v')
    rng = ctx.rng
    n = (400 if focus == 'C04' else 300) if ctx.tier == 'quick' else 6000
    coq_cases, fails = [], []
    corpus = CORPUS_C10 if focus == 'C10' else []
    for k in range(n + len(corpus)):
        sc = corpus[k] if k < len(corpus) else gen_scenario(rng, focus)
        out = run_scenario(sc)
        if focus == 'C04':
            why, tags = oracle_c04(sc, out), ()
        else:
            why, tags = oracle_c10(sc, out)
        if why:
            fails.append((sc, why, tags))
        ls, obs = coq_labels(out)
        coq_cases.append((f"({clist(ctext(t) for t in sc['types'])}, {cz(sc['delay'])}, {cbool(sc['qnone'])}, {clist(ls)})", obs, sc))
        ctx.count(repr(sc), nontrivial=len(out['callbacks']) > 0 or len(out['sends']) > 4)
        ctx.hist(f"callbacks:{min(len(out['callbacks']), 6)}")
        ctx.hist(f"sends:{min(len(out['sends']), 8)}")
        for label, _ in out['labels']:
            ctx.hist('label:' + label[0])
        if sc['violates_hyp']:
            ctx.hist('outside-hyp(correspondence only)')
    ctx.sample(jsonable(coq_cases[0][2]))
    ctx.cov['rule'] = ("scenarios for one browsing host: 2-9 response datagrams (new / refreshed / goodbye / flush / duplicate / re-cased PTR records of 1-2 browsed types, "
                       "SRV/TXT/A records), TTLs 0..9000 s, clock steps from 0 ms to hours around the 1 s, 10 s purge, TTL and 75/85/95 % instants, browser created before or in "
                       "the middle, scheduler delay 1/10/60 s, forced or free question type; every handler invocation (datagram, purge, listener registration, scheduler timer) "
                       "is a label replayed through the model; distinct = distinct scenarios; non-trivial = at least one callback or refresh query")
    reported = 0
    for sc, why, tags in fails:
        if reported >= 3:
            break
        if ctx.violation({'kind': 'oracle', 'why': why, 'scenario': jsonable(sc), 'broken': None if ok else ctx.build_msg}, tags=tags):
            reported += 1
    if not ok:
        if not ctx.violations:
            ctx.violation({'kind': 'broken-obligation', 'broken': ctx.build_msg}, no_input=True)
        return ctx.finish()
    mism = ctx.run_cases('Model.Base Model.PyRec Model.Browser Model.ValSet Corr.C04', 'list text * Z * bool * list xlabel', 'c04_run',
                         [(c, o) for c, o, _ in coq_cases], shard=max(10, len(coq_cases) // (2 * common.NPROC) + 1), mismatch_fn='mismatches_u')
    ctx.cov['traces_validated_against_impl'] = len(coq_cases) - len(mism)
    for idx, model_out in mism[:3]:
        ctx.violation({'kind': 'correspondence', 'what': 'Model.Browser (Ingest + pending callbacks + Sched) disagrees with the implementation on the logged label sequence',
                       'scenario': jsonable(coq_cases[idx][2]), 'implementation': str(coq_cases[idx][1])[:2500], 'model': model_out[:2500]}, no_input=True)
    return ctx.finish()


def replay(ctx, path, focus='C04'):
    from props.c05 import unjson
    r = json.load(open(path))
    if 'scenario' not in r:
        return run(ctx, focus)
    sc = unjson(r['scenario'])
    sc['events'] = [tuple(e) for e in sc['events']]
    out = run_scenario(sc)
    why = oracle_c04(sc, out) if focus == 'C04' else oracle_c10(sc, out)[0]
    print("replay:", f"still fails: {why}" if why else "passes")
    return 1 if why else 0
