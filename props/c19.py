"""C19 - service names validated per RFC 6763, TXT properties round-trip.
Model: coq/Model/Names.v, Model/Txt.v; theorems coq/Props/C19.v; correspondence on generated names / dicts."""
import json
import string

from lib import common
from lib.common import ctext, cbool, clist, copt

TARGETS = ['Props/C19.vo', 'Corr/C19.vo']

# ------------------------------------------------------------------------------------------------
# independent oracles (written from the documented rules, not from the code)
# ------------------------------------------------------------------------------------------------


def svc_ok(svc, strict):
    if not svc.startswith('_'):
        return False
    body = svc[1:]
    if body == '':
        return False
    if strict and len(body) > 15:
        return False
    if '--' in body or body[0] == '-' or body[-1] == '-':
        return False
    if not any(c in string.ascii_letters for c in body):
        return False
    allowed = string.ascii_letters + string.digits + '-' + ('' if strict else '_')
    return all(c in allowed for c in body)


def inst_ok(inst):
    if inst and inst[-1] == '_sub':
        inst = inst[:-1]
        if not inst or inst[0] == '':
            return False
    if not inst:
        return True
    j = '.'.join(inst)
    return len(j.encode('utf-8')) <= 63 and not any(ord(c) < 32 or ord(c) == 127 for c in j)


def expected_type(s, strict):
    """None = must be rejected with BadTypeInNameException; else the service type that must be returned."""
    if len(s) > 256:
        return None
    lab = s.split('.')
    if len(lab) < 3 or lab[-1] != '' or lab[-2] != 'local':
        return None
    rest = lab[:-2]
    if len(rest) >= 2 and rest[-1] in ('_tcp', '_udp'):
        svc, inst = rest[-2], rest[:-2]
        if not svc_ok(svc, strict) or inst == [''] or not inst_ok(inst):
            return None
        return svc + '.' + rest[-1] + '.local.'
    if strict:
        return None
    return 'local.' if inst_ok(rest) else None


def rfc6763_txt(data):
    """RFC 6763 section 6 reader -> ordered list of (key, value|None); None if malformed."""
    out, seen, i = [], set(), 0
    while i < len(data):
        n = data[i]
        s = data[i + 1:i + 1 + n]
        if len(s) < n:
            return None
        i += 1 + n
        if not s or s[0:1] == b'=':
            continue
        if b'=' in s:
            k, v = s.split(b'=', 1)
        else:
            k, v = s, None
        if k not in seen:
            seen.add(k)
            out.append((k, v))
    return out


# ------------------------------------------------------------------------------------------------
# generators
# ------------------------------------------------------------------------------------------------

def gen_names(ctx, n_random):
    rng = ctx.rng
    svc_bodies = ['http', 'a', 'A1', 'a-b', 'a--b', '-a', 'a-', '1', '12-3', 'a_b', '', 'abcdefghijklmno', 'abcdefghijklmnop',
                  'a' * 40, 'a.b', 'a\n', 'a b', 'é', '-', 'a\x7f', '_a', '0a0']
    protos = ['_tcp', '_udp', '_sctp', 'tcp', '_TCP', '']
    tails = ['.local.', '.local', '.Local.', '.example.', '.local..', '']
    insts = [None, 'My Printer', 'a.b', 'a..b', '.a', 'a.', '', 'x' * 63, 'x' * 64, 'é' * 31, 'é' * 32, 'a\x00b', 'a\x1fb',
             'a\x7fb', 'a\x80b', '日本語', '_sub', 'x._sub', '._sub', 'x.y._sub', '_sub._sub', 'x._sub.y', '\U0001F600' * 15,
             '\U0001F600' * 16, 'A' * 200, 'a\nb']
    names = set()
    # grammar product (sampled in quick, full in thorough)
    combos = [(i, b, p, t) for i in insts for b in svc_bodies for p in protos for t in tails]
    if ctx.tier == 'quick':
        combos = rng.sample(combos, 2500)
        # every single-rule violation against an otherwise valid name is always included
        combos += [(i, 'http', '_tcp', '.local.') for i in insts] + [(None, b, '_tcp', '.local.') for b in svc_bodies] \
            + [('x', b, '_udp', '.local.') for b in svc_bodies] \
            + [(None, 'http', p, t) for p in protos for t in tails] + [('x', 'http', p, t) for p in protos for t in tails]
    for i, b, p, t in combos:
        parts = []
        if i is not None:
            parts.append(i)
        parts.append('_' + b if b != '_a' else b)
        if p:
            parts.append(p)
        names.add('.'.join(parts) + t)
    # special forms
    names.update(['', '.', 'local.', '.local.', '_tcp.local.', '._tcp.local.', '_._tcp.local.', '__._tcp.local.',
                  'a.local.', 'a.b.local.', '_sub.local.', 'x._sub.local.', '_a._tcp.local.' + 'x', '..local.',
                  '_http._tcp.local.' * 2, 'x' * 239 + '._http._tcp.local.', 'x' * 240 + '._http._tcp.local.'])
    # lengths around 256
    for k in (238, 239, 240, 241):
        names.add('.'.join(['x' * 50] * 4 + ['y' * (k - 204)]) + '._http._tcp.local.')
    # random strings over a small adversarial alphabet, with and without a valid suffix
    alpha = ['_', '-', '.', 'a', 'A', '1', 'é', '\x00', '\x7f', '\n', 's', 'u', 'b']
    for _ in range(n_random):
        k = rng.randint(0, 9)
        s = ''.join(rng.choice(alpha) for _ in range(k))
        names.add(s + rng.choice(['._tcp.local.', '._udp.local.', '.local.', '', '_tcp.local.', '._a._tcp.local.']))
    if ctx.tier == 'thorough':
        import itertools
        small = ['_', '-', '.', 'a', '1', '\n']
        for k in range(0, 6):
            for tup in itertools.product(small, repeat=k):
                names.add(''.join(tup) + '._tcp.local.')
                names.add(''.join(tup) + '.local.')
    return sorted(names)


def gen_dicts(ctx, n):
    rng = ctx.rng
    keys = ['a', 'key', b'a', b'key', 'path', 'é', b'\xff\x00', '', b'', 'a=b', 'K', 'x' * 10, 'A', 'Key', b'KEY', 'Path', 'É']   # (keys are case-sensitive)
    vals = [None, '', b'', 'v', b'v', 'a=b', b'=', 'é', b'\x00\xff', 1, True, 0, False, 3.5, 'x' * 20]
    out = [{}, {'a': None}, {'a': ''}, {'a': b''}, {b'a': b'1', 'a': '2'}, {'': 'x'}, {'': None}, {'a=b': 'c'}, {'path': '/a', 'Path': '/b'}, {b'id': b'1', 'ID': None}]
    for size in (253, 254, 255, 256):
        out.append({'k': 'v' * (size - 2)})        # item of exactly `size` bytes
        out.append({b'k' * size: None})
        out.append({'é' * (size // 2): None})
    for _ in range(n):
        d = {}
        for _ in range(rng.randint(0, 5)):
            d[rng.choice(keys)] = rng.choice(vals)
        if rng.random() < 0.15:
            d[rng.choice(['big', b'big'])] = rng.choice(['z', b'z']) * rng.choice([250, 251, 252, 253, 300])
        out.append(d)
    return out


def to_bytes_props(d):
    """the caller-side str->bytes glue of _set_properties, reproduced for the model's input"""
    out = []
    for k, v in d.items():
        kb = k.encode('utf-8') if isinstance(k, str) else k
        if v is None:
            vb = None
        elif isinstance(v, bytes):
            vb = v
        else:
            vb = str(v).encode('utf-8')
        out.append((kb, vb))
    return out


def cprops(bp):
    return clist(f"({ctext(k)}, {copt(v, ctext)})" for k, v in bp)


def vprops(items):
    return [[list(k), None if v is None else [list(v)]] for k, v in items]


# ------------------------------------------------------------------------------------------------

def observe_name(strict, s):
    from zeroconf._utils.name import service_type_name
    from zeroconf import BadTypeInNameException
    f = service_type_name.__wrapped__
    try:
        r = f(s, strict=strict)
        return [0, [ord(c) for c in r]], r, None
    except BadTypeInNameException:
        return [1, 4], None, 'BadTypeInNameException'
    except Exception as e:  # noqa: BLE001
        code = {'IndexError': 1, 'ValueError': 5, 'UnicodeEncodeError': 13}.get(type(e).__name__, 99)
        return [1, code], None, type(e).__name__


def run(ctx):
    from zeroconf import ServiceInfo
    ok = ctx.build(TARGETS)
    if ok:
        ok = ctx.assumptions()
    ctx.count_obligations('Props/C19.v')

    # ---- names ----
    names = gen_names(ctx, 1500 if ctx.tier == 'quick' else 20000)
    name_cases, fails = [], []
    for s in names:
        for strict in (True, False):
            obs, ret, exc = observe_name(strict, s)
            exp = expected_type(s, strict)
            why = None
            if exc not in (None, 'BadTypeInNameException'):
                why = f"service_type_name raised {exc} (only BadTypeInNameException is allowed)"
            elif exp is None and ret is not None:
                why = f"accepted a name outside the documented forms, returned {ret!r}"
            elif exp is not None and ret != exp:
                why = f"valid name: expected {exp!r}, got {ret!r} / {exc}"
            if why:
                fails.append(({'name': s, 'strict': strict}, obs, why))
            name_cases.append((f"({cbool(strict)}, {ctext(s)})", obs, {'name': s, 'strict': strict}))
            ctx.count(('n', s, strict), nontrivial=True)
            ctx.hist('name:' + ('accepted' if ret is not None else (exc or '?')))
    ctx.sample({'name': names[len(names) // 2], 'strict': True, 'observed': name_cases[len(names)][1]})

    # ---- TXT ----
    dicts = gen_dicts(ctx, 1200 if ctx.tier == 'quick' else 12000)
    txt_cases = []
    for d in dicts:
        bp = to_bytes_props(d)
        try:
            info = ServiceInfo('_t._tcp.local.', 'n._t._tcp.local.', properties=d)
            text = info.text
            info2 = ServiceInfo('_t._tcp.local.', 'n._t._tcp.local.', properties=text)
            lib = list(info2.properties.items())
            rfc = rfc6763_txt(text)
            obs = [0, list(text), [vprops(lib)], None if rfc is None else [vprops(rfc)]]
            # oracle: wf dicts must round-trip
            keys = [k for k, _ in bp]
            wf = len(set(keys)) == len(keys) and all(b'=' not in k for k in keys)
            if wf:
                want_lib = [(k, (v or None)) for k, v in bp]
                if lib != want_lib:
                    fails.append(({'dict': repr(d)}, obs, f"library decode {lib!r} differs from the given properties {want_lib!r}"))
                if all(k for k in keys):
                    if rfc != [(k, v) for k, v in bp]:
                        fails.append(({'dict': repr(d)}, obs, f"independent RFC 6763 parser reads {rfc!r}, given {bp!r}"))
                # the description's own view of what it was given: same keys and values, as bytes
                own = list(info.properties.items())
                norm = lambda items: [(k, (v or None)) for k, v in items]  # noqa: E731
                if any(not isinstance(k, bytes) or not (v is None or isinstance(v, bytes)) for k, v in own) \
                        or norm(own) != norm(bp):
                    fails.append(({'dict': repr(d)}, obs, f"ServiceInfo.properties is {own!r}, expected the bytes form of {bp!r}"))
                # decoded_properties must not raise
                _ = info2.decoded_properties
                _ = info.decoded_properties
            ctx.hist('txt:ok')
        except ValueError:
            obs = [1, 5]
            if all(len(k + (b'=' + v if v is not None else b'')) <= 255 for k, v in bp):
                fails.append(({'dict': repr(d)}, obs, "ValueError although every item fits 255 bytes"))
            ctx.hist('txt:ValueError')
        except Exception as e:  # noqa: BLE001
            obs = [1, 99]
            fails.append(({'dict': repr(d)}, obs, f"unexpected {type(e).__name__}: {e}"))
        txt_cases.append((cprops(bp), obs, {'dict': repr(d)}))
        ctx.count(('t', repr(d)), nontrivial=len(d) > 0)
    ctx.sample({'dict': repr(dicts[40]), 'observed': txt_cases[40][1]})

    # arbitrary TXT bytes -> library decode
    raw_cases = []
    rng = ctx.rng
    raws = [b'', b'\x00', b'\x01', b'\x05ab', b'\x01=\x01=', b'\x02a=\x03a=b', b'\xff' + b'a' * 10, b'\x03a=b\x00\x01c']
    for _ in range(600 if ctx.tier == 'quick' else 6000):
        raws.append(bytes(rng.choice([0, 1, 2, 3, 61, 97, 98, 255]) for _ in range(rng.randint(0, 12))))
    for raw in raws:
        info = ServiceInfo('_t._tcp.local.', 'n._t._tcp.local.', properties=raw)
        try:
            lib = list(info.properties.items())
            obs = [vprops(lib)]
        except Exception as e:  # noqa: BLE001
            obs = None
            fails.append(({'text': raw.hex()}, None, f"properties raised {type(e).__name__}"))
        raw_cases.append((ctext(raw), obs, {'text': raw.hex()}))
        ctx.count(('r', raw.hex()), nontrivial=len(raw) > 1)

    ctx.cov['rule'] = ("names: grammar product instance x service-body x protocol x tail (each documented rule violated singly and in "
                       "combination, both strict modes) + random strings over an adversarial alphabet; TXT: dicts with str/bytes keys, "
                       "str/bytes/None/int/bool values around the 255-byte item limit + arbitrary TXT byte strings; distinct = distinct inputs; "
                       "non-trivial = non-empty input")
    reported = 0
    for case, obs, why in fails:
        if reported >= 3:
            break
        if ctx.violation({'kind': 'oracle', 'case': case, 'observed': obs, 'why': why,
                          'broken': None if ok else ctx.build_msg}):
            reported += 1
    if not ok:
        if not ctx.violations:
            ctx.violation({'kind': 'broken-obligation', 'broken': ctx.build_msg}, no_input=True)
        return ctx.finish()

    total_ok = 0
    for tag, cases, ity, fn in [('names', name_cases, 'bool * text', 'c19_name_run'),
                                ('spec', [c for c in name_cases if c[1] in ([1, 4],) or c[1][0] == 0], 'bool * text', 'c19_spec_run'),
                                ('txt', txt_cases, 'props', 'c19_txt_run'),
                                ('raw', raw_cases, 'bytes', 'c19_txt_decode_run')]:
        mism = ctx.run_cases('Model.Base Model.Txt Corr.C19', ity, fn, [(c, o) for c, o, _ in cases], shard=400, tag=tag)
        total_ok += len(cases) - len(mism)
        for idx, model_out in mism[:2]:
            ctx.violation({'kind': 'correspondence', 'what': f"Corr.C19.{fn} disagrees with the implementation",
                           'case': cases[idx][2], 'implementation': cases[idx][1], 'model': model_out[:2000]}, no_input=True)
    ctx.cov['traces_validated_against_impl'] = total_ok
    return ctx.finish()


def replay(ctx, path):
    r = json.load(open(path))
    c = r.get('case', {})
    if 'name' in c:
        obs, ret, exc = observe_name(c['strict'], c['name'])
        exp = expected_type(c['name'], c['strict'])
        bad = exc not in (None, 'BadTypeInNameException') or (exp is None) != (ret is None) or (exp is not None and ret != exp)
        print(f"service_type_name({c['name']!r}, strict={c['strict']}) -> {ret!r} / {exc}; expected {exp!r}")
        print("replay:", "still fails" if bad else "passes")
        return 1 if bad else 0
    print("replay: re-running the check")
    return run(ctx)
