"""C14 - outgoing messages respect size limits and account for every section entry (shares props/c01.py)."""
from props import c01


def run(ctx):
    return c01.run(ctx, focus='C14')


def replay(ctx, path):
    return c01.replay(ctx, path, focus='C14')
