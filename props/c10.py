"""C10 - browser keeps learned services alive: refresh queries, rate limit, liveness (shares props/c04.py)."""
from props import c04


def run(ctx):
    return c04.run(ctx, focus='C10')


def replay(ctx, path):
    return c04.replay(ctx, path, focus='C10')
