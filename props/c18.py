"""C18 - service-info lookup: bounded, cache-first, never from expired data.
Model: coq/Model/Info.v (record processing, cache load, the async_request loop as an LTS) on top of Model.Query / Model.Ingest.
The harness runs a real AsyncServiceInfo.async_request on the virtual-time loop, logs every resumption of the coroutine and every
datagram as a label and replays that label sequence through the model."""
import json

from lib import cachesim, common
from lib.cachesim import rec, coq_rec
from lib.common import cz, ctext, cbool, clist, copt
from lib.simloop import Sim
from props import c03

TARGETS = ['Props/C18.vo', 'Corr/C18.vo']
T = '_t._tcp.local.'
NAME = 'x.' + T


def records(rng):
    # (a service registered without server= advertises its own instance name as the SRV target: host records owned by the instance name)
    host = rng.choice(['h.local.', 'h.local.', 'H.local.', 'h.local.', NAME])
    h2 = NAME if host == NAME else 'h.local.'
    srv = rec('KService', rng.choice([NAME, NAME, 'X.' + T]), 33, 0x8001, port=rng.choice([80, 81]), weight=1, priority=2, server=host, ttl=120)
    txt = rec('KText', NAME, 16, 0x8001, text=rng.choice([b'\x01a', b'']), ttl=4500)
    a1 = rec('KAddress', host, 1, 0x8001, address=bytes([10, 0, 0, 1]), ttl=120)
    a2 = rec('KAddress', h2, 1, 0x8001, address=bytes([10, 0, 0, 2]), ttl=120)
    a6 = rec('KAddress', h2, 28, 0x8001, address=bytes([0xfe, 0x80] + [0] * 13 + [1]), ttl=120)
    other_srv = rec('KService', NAME, 33, 0x8001, port=9, weight=0, priority=0, server='g.local.', ttl=120)
    ga = rec('KAddress', 'g.local.', 1, 0x8001, address=bytes([10, 0, 0, 9]), ttl=120)
    unrelated = rec('KAddress', 'zz.local.', 1, 0x8001, address=bytes([10, 9, 9, 9]), ttl=120)
    return dict(srv=srv, txt=txt, a1=a1, a2=a2, a6=a6, other_srv=other_srv, ga=ga, unrelated=unrelated)


def gen_scenario(rng):
    R = records(rng)
    timeout = rng.choice([200, 1000, 3000, 10000])
    forced = rng.choice([None, None, True, False])
    pre = []
    # cache state per record: absent / fresh / stale / expired-unpurged (ages relative to the lookup start)
    for k in ('srv', 'txt', 'a1', 'a2', 'a6', 'ga'):
        st = rng.choice(['absent', 'absent', 'fresh', 'stale', 'expired'])
        if st == 'absent':
            continue
        ttl = R[k]['ttl']
        age = {'fresh': rng.choice([0, 1000, ttl * 500 - 1]), 'stale': rng.choice([ttl * 500, ttl * 500 + 1, ttl * 999]),
               'expired': rng.choice([ttl * 1000, ttl * 1000 + 1, ttl * 1000 + 5000])}[st]
        pre.append((-age, [R[k]]))
    if rng.random() < 0.15:
        pre.append((-10, [R['other_srv']]))
    pre.sort(key=lambda d: d[0])
    # answers arriving during the lookup, around the query instants and the deadline
    during = []
    grid = [0, 1, 57, 219, 220, 221, 320, 440, 1000, timeout - 1, timeout, timeout + 1, timeout // 2]
    for _ in range(rng.choice([0, 1, 1, 2, 3])):
        t = max(0, rng.choice(grid))
        ks = rng.sample(['srv', 'txt', 'a1', 'a2', 'a6', 'other_srv', 'ga', 'unrelated'], rng.randint(1, 3))
        recs = [dict(R[k], ttl=rng.choice([R[k]['ttl'], R[k]['ttl'], 0])) for k in ks]
        during.append((t, recs))
    during.sort(key=lambda d: d[0])
    jitter = [rng.choice([20, 57, 120]) for _ in range(40)]
    return dict(timeout=timeout, forced=forced, pre=pre, during=during, jitter=jitter, lead=max([-p[0] for p in pre] + [0]) + 20000,
                again=rng.choice([None, None, None, 0, 100, 500, 1200]))


def vinfo(info):
    from zeroconf import IPVersion
    return [info.name, None if info.server is None else [info.server], None if info.port is None else [info.port], info.weight, info.priority,
            bytes(info.text or b''), [bytes(a) for a in info.addresses_by_version(IPVersion.V4Only)],
            [bytes(a) for a in info.addresses_by_version(IPVersion.V6Only)]]


def run_scenario(sc):
    from zeroconf import DNSQuestionType, ServiceInfo
    from zeroconf.asyncio import AsyncServiceInfo
    from props.c04 import build_response
    labels, obs = [], []
    res = {}
    serial = [0]

    def datagram(recs):
        # every injected response gets its own message id: two byte-identical datagrams less than a second apart would be dropped by the
        # listener's duplicate guard (C16) before they reach the record manager, and the labels here stand for responses that were processed
        serial[0] += 1
        b = bytearray(build_response(recs))
        b[0:2] = serial[0].to_bytes(2, 'big')
        return bytes(b)
    with Sim() as sim:
        cur = []

        def begin(label):
            nonlocal cur
            cur = []
            labels.append(label)
            obs.append(cur)

        orig_wait = ServiceInfo.async_wait
        state = {'turns': 0, 'rnd_mark': 0, 'started': False, 'info': None}

        def draws():
            d = [v for (_, site, v) in sim.random_log[state['rnd_mark']:] if site == 'lookup_jitter']
            state['rnd_mark'] = len(sim.random_log)
            return d[0] if d else 0

        async def wait(self, timeout, loop=None):
            if self is state['info']:
                # the turn that just ended (it began when the coroutine was last resumed, at this very instant)
                if state['turns'] == 0:
                    labels[state['start_idx']] = labels[state['start_idx']].replace('RND', cz(draws()))
                else:
                    labels[state['turn_idx']] = labels[state['turn_idx']].replace('RND', cz(draws()))
                state['turns'] += 1
                await orig_wait(self, timeout, loop)
                begin('ITurn %s RND' % cz(sim.now))
                state['turn_idx'] = len(labels) - 1
            else:
                await orig_wait(self, timeout, loop)
        ServiceInfo.async_wait = wait
        import zeroconf._engine as zengine
        orig_cleanup = zengine.AsyncEngine._async_cache_cleanup

        def cleanup(self):
            labels.append(f"IPurge {cz(sim.now)}")
            res.setdefault('purges', []).append(sim.now)
            obs.append(None)
            orig_cleanup(self)
        zengine.AsyncEngine._async_cache_cleanup = cleanup
        try:
            async def main():
                b = await sim.start_host('B', '10.0.0.2')
                sim.randoms['lookup_jitter'] = list(sc['jitter'])
                orig_send = b.zc.async_send

                def send(out, addr=None, port=5353, v6=(), transport=None):
                    if state['started']:
                        cur.append([1, sim.now, bool(out.questions and out.questions[0].unique),
                                    c03.vset([[q.name, q.type, q.class_, bool(q.unique)] for q in out.questions]),
                                    c03.vset([[c03.vrec_ident(r), int(r.created)] for r, _ in out.answers])])
                        res.setdefault('sends', []).append((sim.now, [(q.name, q.type, bool(q.unique)) for q in out.questions]))
                    orig_send(out, addr, port, v6, transport)
                b.zc.async_send = send
                t0 = sim.now + sc['lead']
                for (dt, recs) in sc['pre']:
                    await sim.sleep_until(t0 + dt)
                    labels.append(f"IPreload {cz(sim.now)} {clist(coq_rec(dict(r, created=sim.now)) for r in recs)}")
                    obs.append(None)
                    sim.net.inject(b, datagram(recs), ('10.0.0.9', 5353))
                await sim.sleep_until(t0)
                res['t0'] = t0
                info = AsyncServiceInfo(T, NAME)
                state['info'] = info
                qt = None if sc['forced'] is None else (DNSQuestionType.QU if sc['forced'] else DNSQuestionType.QM)
                state['started'] = True
                begin(f"IStart {ctext(NAME)} {cz(sim.now)} {cz(sc['timeout'])} RND {copt(sc['forced'], cbool)}")
                state['start_idx'] = len(labels) - 1
                state['rnd_mark'] = len(sim.random_log)

                async def inject_during():
                    for (dt, recs) in sc['during']:
                        await sim.sleep_until(t0 + dt)
                        labels.append(f"IResp {cz(sim.now)} {clist(coq_rec(dict(r, created=sim.now)) for r in recs)}")
                        obs.append(None)
                        sim.net.inject(b, datagram(recs), ('10.0.0.9', 5353))
                import asyncio
                inj = asyncio.ensure_future(inject_during())
                ok = await info.async_request(b.zc, sc['timeout'], qt)
                res['result'] = bool(ok)
                res['t_ret'] = sim.now
                # the final turn (the one that returned) has no async_wait: close its label
                last = state.get('turn_idx') if state['turns'] else state['start_idx']
                labels[last] = labels[last].replace('RND', cz(draws()))
                obs[last].append([2, sim.now, bool(ok)])
                res['info'] = vinfo(info)
                res['final_info'] = res['info']
                if sc.get('again') is not None:
                    # the application tries again: a second lookup of the same instance, `again` ms after the first returned (its questions
                    # may sit in the question history, the cache holds whatever arrived meanwhile)
                    await sim.sleep(sc['again'])
                    mark = len(res.get('sends', []))
                    info2 = AsyncServiceInfo(T, NAME)
                    state['info'] = info2
                    state['turns'] = 0
                    t2 = sim.now
                    begin(f"IStart {ctext(NAME)} {cz(sim.now)} {cz(sc['timeout'])} RND {copt(sc['forced'], cbool)}")
                    state['start_idx'] = len(labels) - 1
                    state['rnd_mark'] = len(sim.random_log)
                    ok2 = await info2.async_request(b.zc, sc['timeout'], qt)
                    last = state.get('turn_idx') if state['turns'] else state['start_idx']
                    labels[last] = labels[last].replace('RND', cz(draws()))
                    obs[last].append([2, sim.now, bool(ok2)])
                    res['second'] = dict(t0=t2, t_ret=sim.now, result=bool(ok2), info=vinfo(info2), sends=res.get('sends', [])[mark:])
                    res['sends'] = res.get('sends', [])[:mark]
                    res['final_info'] = res['second']['info']
                await inj
                await b.azc.async_close()
            sim.run(main())
        finally:
            ServiceInfo.async_wait = orig_wait
            zengine.AsyncEngine._async_cache_cleanup = orig_cleanup
        res['escaped'] = list(sim.loop.escaped)
    res['labels'] = labels
    # observations: one per IStart/ITurn label, then the final info
    res['obs'] = [o for o in obs if o is not None] + [res['final_info']]
    res.setdefault('sends', [])
    return res


def oracle(sc, res):
    if res['escaped']:
        return f"exception in the event loop: {res['escaped'][0]}"
    t0 = res['t0']
    if res['t_ret'] > t0 + sc['timeout']:
        return f"lookup returned at +{res['t_ret'] - t0}, later than its timeout {sc['timeout']}"
    info = res['info']
    has_addr = bool(info[6] or info[7])
    if res['result'] != has_addr:
        return f"lookup returned {res['result']} while holding addresses {info[6]}, {info[7]}"
    # every field must come from a record for this instance / its host that had not expired when it could have been read.
    # "Not expired" is judged on a plain RFC 6762 section 10 cache (lib/refcache.py: refresh, goodbye, cache-flush marking) at the
    # instants the lookup can read: its start, and every datagram that arrives while it runs (the cache as listeners see it, plus
    # the datagram's own records)
    from lib import refcache

    class NoProbes:
        names = details = recs = servers = alias = []
    rc = refcache.RefCache(NoProbes())
    usable = []          # (record dict) readable and unexpired at some read instant
    events = sorted([(t0 + dt, recs) for dt, recs in sc['pre'] + sc['during']] + [(t, None) for t in res.get('purges', [])], key=lambda e: (e[0], e[1] is not None))

    def snapshot(now):
        return [d for d in rc.flat.values() if d['created'] + 1000 * d['ttl'] > now]
    import copy
    started = False
    for t, recs in events:
        if t >= t0 and not started:
            usable += copy.deepcopy(snapshot(t0))       # what the cache holds when the lookup starts
            started = True
        if t > res['t_ret']:
            break
        if recs is None:
            rc.event(('purge', t))
        else:
            rc.event(('resp', t, recs, []))
        if t >= t0:
            usable += copy.deepcopy(snapshot(t)) + ([dict(r, created=t) for r in recs if r['ttl'] > 0] if recs else [])
    if not started:
        usable += copy.deepcopy(snapshot(t0))
    if info[1] is not None:
        if not any(r['kind'] == 'KService' and r['name'].lower() == NAME.lower() and r['server'] == info[1][0] and r['port'] == info[2][0]
                   for r in usable):
            return f"host/port {info[1]}/{info[2]} not taken from an unexpired SRV record of the instance"
        for a in info[6] + info[7]:
            if not any(r['kind'] == 'KAddress' and r['name'].lower() == info[1][0].lower() and bytes(r['address']) == a for r in usable):
                return f"address {a.hex()} not taken from an unexpired address record of host {info[1][0]}"
    elif has_addr:
        return "addresses without a host"
    # cache-first: when the cache held, unexpired at t0, exactly one SRV of the instance and an address of its host, the lookup answers at
    # once and transmits nothing
    rc0 = refcache.RefCache(NoProbes())
    for t, recs in events:
        if t > t0 or (t == t0 and recs is not None and (t - t0, recs) in [(dt, r) for dt, r in sc['during']]):
            break
        if recs is None:
            rc0.event(('purge', t))
        else:
            rc0.event(('resp', t, recs, []))
    live0 = [d for d in rc0.flat.values() if d['created'] + 1000 * d['ttl'] > t0]
    srvs = [d for d in live0 if d['kind'] == 'KService' and d['name'].lower() == NAME.lower()]
    if len(srvs) == 1 and any(d['kind'] == 'KAddress' and d['name'].lower() == srvs[0]['server'].lower() for d in live0):
        if res['sends'] and res['sends'][0][0] == t0:
            return f"the cache already held a live SRV and address at the start, yet a query was transmitted at +0"
        if not (res['result'] and res['t_ret'] == t0):
            return f"the cache already held a live SRV and address at the start, yet the lookup returned {res['result']} at +{res['t_ret'] - t0}"
    # ... and the other direction of "succeeds iff it knows an address": a lookup that gave up at its deadline although the one SRV record of
    # the instance and an address record of that SRV's host had both arrived (or were cached) before the deadline and were both still
    # unexpired then, did not take in what it was told. (Judged only on histories with a single SRV target and no goodbye for either record.)
    if not res['result']:
        allrecs = [r for _, recs in sc['pre'] + sc['during'] for r in recs]
        targets = {r['server'].lower() for r in allrecs if r['kind'] == 'KService' and r['name'].lower() == NAME.lower()}
        rcd = refcache.RefCache(NoProbes())
        for t, recs in events:
            if t >= res['t_ret']:
                break
            rcd.event(('purge', t) if recs is None else ('resp', t, recs, []))
        live = [d for d in rcd.flat.values() if d['created'] + 1000 * d['ttl'] > res['t_ret']]
        if len(targets) == 1:
            host = next(iter(targets))
            gone = [r for r in allrecs if r['ttl'] == 0 and (r['kind'] == 'KService' or r['name'].lower() == host)]
            if not gone and any(d['kind'] == 'KService' and d['name'].lower() == NAME.lower() for d in live) and \
                    any(d['kind'] == 'KAddress' and d['name'].lower() == host for d in live):
                return (f"the lookup failed at its deadline although an unexpired SRV record of the instance and an unexpired address record of "
                        f"its host {host} had reached the instance before the deadline")
    for which, r in (('', res), ('second ', res.get('second'))):
        if r is None:
            continue
        # a lookup that cannot answer from the cache and opens with a QU query (no question type forced, or QU forced) transmits it at once:
        # the address questions are always asked, and QU questions are never suppressed by the question history
        if r['t_ret'] > r['t0'] and sc['forced'] is not False and not (r['sends'] and r['sends'][0][0] == r['t0']):
            return f"the {which}lookup did not return at once, yet transmitted no query at its start (queries at {[t - r['t0'] for t, _ in r['sends']]})"
    r2 = res.get('second')
    if r2 is not None:
        if r2['t_ret'] > r2['t0'] + sc['timeout']:
            return f"second lookup returned at +{r2['t_ret'] - r2['t0']}, later than its timeout {sc['timeout']}"
        if r2['result'] != bool(r2['info'][6] or r2['info'][7]):
            return f"second lookup returned {r2['result']} while holding addresses {r2['info'][6]}, {r2['info'][7]}"
        if sc['forced'] is False:
            # all queries QM: the question history (the first lookup's own QM queries less than a second ago) may rightly suppress them
            if any(q[2] for _, qs in r2['sends'] for q in qs):
                return "second lookup: a QU question although QM was forced"
        else:
            why2 = oracle_questions(sc, r2)
            if why2:
                return 'second lookup: ' + why2
    return oracle_questions(sc, res)


def oracle_questions(sc, res, spacing=False):
    """first query QU unless a type is forced, later ones QM (C18, C13); with spacing=True also C13's clause "a lookup spaces its queries at
    least one second apart after the second" -> (why, tags) ; without it -> why"""
    why, tags = _oracle_questions(sc, res, spacing)
    return (why, tags) if spacing else why


def _oracle_questions(sc, res, spacing):
    t0 = res['t0']
    sends = res['sends']
    qus = [all(q[2] for q in qs) for t, qs in sends if qs]
    if sends:
        if sends[0][0] != t0:
            return f"first query at +{sends[0][0] - t0}, expected at the start", set()
        want_first = True if sc['forced'] is None else sc['forced']
        if any(q[2] != want_first for q in sends[0][1]):
            return f"first query QU={[q[2] for q in sends[0][1]]}, expected {want_first}", set()
        if sends[0][0] != t0:
            return f"first query at +{sends[0][0] - t0}, expected at the start", set()
        for t, qs in sends[1:]:
            if any(q[2] for q in qs):
                return f"query at +{t - t0} after the first one carries a QU question", set()
        if spacing:
            # the transmitted queries of the lookup: the third and every later one at least one second after its predecessor
            times = [t for t, qs in sends if qs]
            for k in range(2, len(times)):
                if times[k] - times[k - 1] < 1000:
                    # known finding: the delay is raised to 999 ms only AFTER the wake-up following the first QM query has been computed,
                    # so the third query turn comes 200 ms + jitter after the second; it transmits whenever the history does not suppress it
                    tags = {'lookup_third_query_early'} if k == 2 and times[k] - times[k - 1] >= 220 else set()
                    return (f"lookup queries at +{times[k - 1] - t0} and +{times[k] - t0}: query {k + 1} less than one second after query {k}", tags)
    return None, set()


def jsonable(x):
    from props.c05 import jsonable as j
    return j(x)


def run(ctx):
    ok = ctx.build(TARGETS)
    if ok:
        ok = ctx.assumptions()
    ctx.count_obligations('Props/C18.v')
    rng = ctx.rng
    coq_cases, fails = [], []
    for _ in range(500 if ctx.tier == 'quick' else 8000):
        sc = gen_scenario(rng)
        res = run_scenario(sc)
        why = oracle(sc, res)
        if why:
            fails.append((sc, why))
        coq_cases.append((clist(res['labels']), res['obs'], sc))
        ctx.count(repr(sc), nontrivial=bool(sc['pre'] or sc['during']))
        ctx.hist(f"result:{res['result']}")
        ctx.hist(f"sends:{min(len(res['sends']), 5)}")
        ctx.hist('returned-at-start' if res['t_ret'] == res['t0'] else ('returned-at-deadline' if res['t_ret'] == res['t0'] + sc['timeout'] else 'returned-between'))
    ctx.sample(jsonable(coq_cases[0][2]))
    ctx.cov['rule'] = ("lookups of one instance: cache state per record SRV/TXT/A/A/AAAA (+ a second host) in {absent, fresh, stale, expired-unpurged}, an older SRV pointing elsewhere; "
                       "answers (also goodbyes, foreign records, a host change) injected around each query instant and the deadline (-1/0/+1 ms); timeouts 200..10000 ms; forced QU / QM / free; "
                       "jitter 20/57/120; every resumption of the coroutine and every datagram is a label replayed through the model; compared: sends (time, QU, questions, known answers), "
                       "return time and value, all public fields. distinct = distinct scenarios; non-trivial = some record involved")
    for sc, why in fails[:3]:
        ctx.violation({'kind': 'oracle', 'why': why, 'scenario': jsonable(sc), 'broken': None if ok else ctx.build_msg})
    if not ok:
        if not ctx.violations:
            ctx.violation({'kind': 'broken-obligation', 'broken': ctx.build_msg}, no_input=True)
        return ctx.finish()
    mism = ctx.run_cases('Model.Base Model.PyRec Model.Info Model.ValSet Corr.C18', 'list ilabel', 'c18_run', [(c, o) for c, o, _ in coq_cases],
                         shard=max(10, len(coq_cases) // (2 * common.NPROC) + 1), mismatch_fn='mismatches_u')
    ctx.cov['traces_validated_against_impl'] = len(coq_cases) - len(mism)
    if mism and not fails:
        # the model and the code disagree: look for an input on which the property itself fails, among fresh scenarios that share the
        # shape of the disagreeing ones (same SRV target, same forced question type) - oracle only, no model involved
        def shape(sc):
            srv = [r['server'].lower() for _, recs in sc['pre'] + sc['during'] for r in recs if r['kind'] == 'KService']
            return (tuple(sorted(set(srv))), sc['forced'])
        shapes = {shape(coq_cases[idx][2]) for idx, _ in mism}
        tried = 0
        for _ in range(20000):
            if tried >= 1500 or len(fails) >= 2:
                break
            sc = gen_scenario(rng)
            if shape(sc) not in shapes:
                continue
            tried += 1
            why = oracle(sc, run_scenario(sc))
            if why:
                fails.append((sc, why))
                ctx.violation({'kind': 'oracle', 'found_by': 'search after a correspondence mismatch', 'why': why, 'scenario': jsonable(sc)})
        ctx.cov['failing_input_search'] = f"{tried} scenarios of the disagreeing shapes"
    for idx, model_out in mism[:3]:
        ctx.violation({'kind': 'correspondence', 'what': 'Model.Info (async_request loop / record processing) disagrees with the implementation on the logged label sequence',
                       'scenario': jsonable(coq_cases[idx][2]), 'labels': coq_cases[idx][0][:3000], 'implementation': str(coq_cases[idx][1])[:2500], 'model': model_out[:2500]},
                      no_input=True)
    return ctx.finish()


def replay(ctx, path):
    from props.c05 import unjson
    r = json.load(open(path))
    if 'scenario' not in r:
        return run(ctx)
    sc = unjson(r['scenario'])
    sc['pre'] = [tuple(p) for p in sc['pre']]
    sc['during'] = [tuple(p) for p in sc['during']]
    res = run_scenario(sc)
    why = oracle(sc, res)
    print("replay:", f"still fails: {why}" if why else "passes")
    return 1 if why else 0
