"""C12 - reply timing: jitter, aggregation, one-second protection, truncated queries.
Model: coq/Model/OutQueue.v (the aggregation queue as an LTS); theorems coq/Props/C12.v.
Two ties: (1) the real MulticastOutgoingQueue on the virtual-time loop against the model on tie-free schedules;
(2) the property's own oracle on the full stack: queries injected into a host with registered services."""
import json

from lib import common, cachesim
from lib.common import cz, clist
from lib.simloop import Sim

TARGETS = ['Props/C12.vo', 'Corr/C12.vo']
SETTAG = -7777


# ------------------------------------------------------------------------------------------------
# (1) queue-level correspondence
# ------------------------------------------------------------------------------------------------

def gen_schedule(rng):
    cfg = rng.choice([(0, 500), (1000, 200)])
    n = rng.randint(1, 6)
    t = 1_000_000 + rng.choice([0, 3, 7])
    adds = []
    for _ in range(n):
        ans = {rng.randrange(6): sorted(rng.sample(range(10, 14), rng.randint(0, 2))) for _ in range(rng.randint(1, 3))}
        r = rng.choice([20, 21, 57, 119, 120, 33, 99])
        late = rng.choice([0, 0, 0, 450])       # TC-deferred queries carry the first packet's (older) arrival time
        adds.append((t - late, t, r, ans))
        t += rng.choice([0, 1, 19, 20, 21, 50, 100, 119, 120, 121, 200, 380, 499, 500, 501, 999, 1000, 1001, 1120, 1200, 3000])
    # tie-free: no add may coincide with a timer deadline (same-instant handler order is not part of the behaviour)
    deadlines = set()
    for now, tnow, r, _ in adds:
        deadlines |= {tnow + r + cfg[0], now + cfg[1] + cfg[0], now + r + cfg[0]}
    times = [a[1] for a in adds]
    if any(x in deadlines for x in times) or len(set(times)) != len(times):
        return None
    return cfg, adds


def run_queue_impl(cfg, adds, horizon):
    from zeroconf._handlers.multicast_outgoing_queue import MulticastOutgoingQueue
    sent = []
    with Sim(start_ms=adds[0][1] - 10) as sim:
        class ZC:
            loop = sim.loop

            def async_send(self, out):
                # the DNSOutgoing built by construct_outgoing_multicast_answers: answers + additionals
                sent.append((sim.now, out))
        import zeroconf._handlers.multicast_outgoing_queue as zq
        captured = []
        real_construct = zq.construct_outgoing_multicast_answers
        zc = ZC()
        q = MulticastOutgoingQueue(zc, cfg[0], cfg[1])

        def construct(answers):
            captured.append((sim.now, {k: sorted(v) for k, v in answers.items()}))
            return None
        zq.construct_outgoing_multicast_answers = construct
        try:
            async def main():
                for now, tnow, r, ans in adds:
                    await sim.sleep_until(tnow)
                    sim.randoms['mcast_delay'] = [r]
                    q.async_add(now, {k: set(v) for k, v in ans.items()})
                await sim.sleep_until(horizon)
            sim.run(main())
        finally:
            zq.construct_outgoing_multicast_answers = real_construct
    return [[t, [SETTAG, [[k, [SETTAG, v]] for k, v in a.items()]]] for t, a in captured]


def oracle_queue(cfg, adds, obs):
    """C12_lower / C12_upper / C12_no_dup read off the real queue: a record never leaves before the jitter of some request that asked for
    it has elapsed, every requested record leaves by arrival + aggregation + additional (arrival = handling time), no duplicates in a batch"""
    additional, aggregation = cfg
    for t, batch in obs:
        keys = [kv[0] for kv in batch[1]]
        if len(set(keys)) != len(keys):
            return f"batch at {t} lists a record twice"
        for k in keys:
            if not any(k in a and now + r + additional <= t for now, tnow, r, a in adds):
                return f"record {k} multicast at {t}, before the random delay of every request for it had elapsed"
    for now, tnow, r, a in adds:
        if now != tnow:
            continue
        for k in a:
            if not any(k in [kv[0] for kv in batch[1]] and tnow <= t <= now + aggregation + additional for t, batch in obs):
                return f"record {k} requested at {now} not multicast by {now + aggregation + additional}"
    return None


def coq_schedule(cfg, adds, horizon):
    def ca(ans):
        return clist(f"({cz(k)}, {common.czlist(v)})" for k, v in ans.items())
    return f"(({cz(cfg[0])}, {cz(cfg[1])}), {clist(f'({cz(n)}, {cz(t)}, {cz(r)}, {ca(a)})' for n, t, r, a in adds)}, {cz(horizon)})"


# ------------------------------------------------------------------------------------------------
# (2) node-level oracle
# ------------------------------------------------------------------------------------------------

T = '_t._tcp.local.'
XN, YN, HN = 'MyPrinter X.' + T, 'y.' + T, 'Host-H.local.'     # mixed-case owner names: records are matched case-insensitively


def build_query(questions, known=(), tc=False, ident=0):
    from zeroconf import DNSOutgoing, DNSQuestion
    o = DNSOutgoing(0x0200 if tc else 0, multicast=True, id_=ident)
    for n, t, qu in questions:
        o.add_question(DNSQuestion(n, t, 1 | (0x8000 if qu else 0)))
    for r in known:
        o.add_answer_at_time(cachesim.mk(r), 0)
    p = o.packets()
    assert len(p) == 1
    b = bytearray(p[0])
    if tc:
        b[2] |= 0x02
    return bytes(b)


def gen_scenario(rng):
    """timed queries against a host with two services; all QM from port 5353"""
    evs = []
    t = 0
    for _ in range(rng.randint(1, 6)):
        kind = rng.choice(['ptr', 'ptr', 'ptr', 'srv', 'a', 'multi', 'tc', 'ptr-known'])
        src = rng.choice(['10.0.0.7', '10.0.0.8'])
        if evs and rng.random() < 0.35:
            # the very same datagram again (same bytes, same source): a stream of copies, each less than a second after the previous one,
            # is suppressed only for one second after the copy that was handled
            kind, src, ident = evs[-1][1], evs[-1][2], evs[-1][5]
            evs.append((t, kind, src, rng.choice([20, 57, 120]), rng.choice([400, 450, 500]), ident))
        else:
            evs.append((t, kind, src, rng.choice([20, 57, 120]), rng.choice([400, 450, 500]), rng.choice([0, 0, rng.randrange(1, 60000)])))
        t += rng.choice([0, 20, 119, 120, 121, 200, 499, 500, 501, 999, 1000, 1001, 1120, 2500, 7000])
    return evs


def records_in(data):
    from zeroconf._protocol.incoming import DNSIncoming
    m = DNSIncoming(data)
    return m, [(type(r).__name__, r.name.lower(), r.type, getattr(r, 'alias', getattr(r, 'server', '')).lower(), r.ttl) for r in m.answers()]


def run_scenario(evs, loopback=True):
    from zeroconf import ServiceInfo
    log = []
    with Sim(loopback=loopback) as sim:
        async def main():
            a = await sim.start_host('A', '10.0.0.1')
            x = ServiceInfo(T, XN, port=80, addresses=[bytes([10, 0, 0, 1])], server=HN)
            y = ServiceInfo(T, YN, port=81, addresses=[bytes([10, 0, 0, 1])], server=HN)
            await a.azc.async_register_service(x)
            await a.azc.async_register_service(y)
            await sim.sleep(20000)          # let announcements age past every protection window
            t0 = sim.now
            base = len(sim.net.log)
            ptr_x = cachesim.rec('KPointer', T, 12, 1, alias=XN, ttl=4500)
            for (dt, kind, src, r, tcd, ident) in evs:
                await sim.sleep_until(t0 + dt)
                sim.randoms['mcast_delay'] = [r]
                sim.randoms['tc_delay'] = [tcd]
                if kind in ('ptr', 'ptr-known', 'tc', 'tc-known-y', 'tc-known-x', 'tc-known-xy'):
                    ptr_y = cachesim.rec('KPointer', T, 12, 1, alias=YN, ttl=4500)
                    known = {'ptr-known': [ptr_x], 'tc-known-x': [ptr_x], 'tc-known-y': [ptr_y], 'tc-known-xy': [ptr_x, ptr_y]}.get(kind, [])
                    if kind.startswith('tc') and ident >= 100:
                        # packets of a generated train differ in content (a multicast query carries id 0, and an identical continuation is ignored)
                        known = known + [cachesim.rec('KPointer', T, 12, 1, alias=f'filler{ident}.{T}', ttl=4500)]
                    data = build_query([(T, 12, False)], known=known, tc=kind.startswith('tc'), ident=ident)
                elif kind == 'srv':
                    data = build_query([(XN, 33, False)], ident=ident)
                elif kind == 'a':
                    data = build_query([(HN, 1, False)], ident=ident)
                else:
                    data = build_query([(T, 12, False), (XN, 16, False)], ident=ident)
                log.append(('query', sim.now - t0, kind, src, r, tcd, data))
                sim.net.inject(a, data, (src, 5353))
            await sim.sleep(5000)
            for (ms, host, dest, data, idx) in sim.net.log[base:]:
                log.append(('send', ms - t0, dest, data))
            await a.azc.async_close()
        sim.run(main())
        esc = list(sim.loop.escaped)
    return log, esc


def tc_hold(q):
    return q[5]      # the tc_delay draw of that packet (400..500 ms)


def oracle_scenario(log, esc):
    if esc:
        return f"exception in the event loop: {esc[0]}"
    queries = [e for e in log if e[0] == 'query']
    sends = [e for e in log if e[0] == 'send']
    mc = []
    mc_send_index = []
    unseen = set()      # indices (into sends) of own multicasts whose loop-back copy the duplicate guard dropped: the host did not see them
    for sidx, (_, ts, dest, data) in enumerate(sends):
        m, recs = records_in(data)
        if dest and dest[0] == '224.0.0.251':
            idents = [r[:4] for r in recs]
            if len(set(idents)) != len(idents):
                return f"multicast at +{ts} lists a record twice"
            mc.append((ts, set(idents), recs, {r[:4] for r in recs[:m.num_answers]}))
            mc_send_index.append(sidx)
    px, py = ('DNSPointer', T, 12, XN.lower()), ('DNSPointer', T, 12, YN)

    def sightings(ident, before):
        return [ts for k, (ts, ids, _, _) in enumerate(mc) if ident in ids and ts <= before and mc_send_index[k] not in unseen]
    # The listener's duplicate guard (C16) remembers the last datagram it HANDLED on the socket - queries and, with multicast loop-back,
    # the instance's own transmissions coming back - and drops a byte-identical datagram arriving less than a second after it (none of
    # these has a QU question). A dropped copy does not extend the window. Replay that memory over everything the socket received:
    # at each instant first the injected queries in order, then the loop-back copies of what was sent at that instant.
    recv = [(t, 0, i, data, src, i) for i, (_, t, kind, src, r, tcd, data) in enumerate(queries)]
    recv += [(ts, 1, j, data, None, None) for j, (_, ts, dest, data) in enumerate(sends) if dest and dest[0] == '224.0.0.251']
    recv.sort(key=lambda x: (x[0], x[1], x[2]))
    g_data, g_t, g_src = None, None, None
    verdict = {}
    for (t, _, sj, data, src, qi) in recv:
        dup = g_data == data and t - 1000 < g_t
        if qi is None and dup:
            unseen.add(sj)
        if qi is not None:
            # from the same source: a link-layer duplicate, rightly ignored; from another source it is somebody else's query, which is
            # then covered by the answer still pending for the first copy (the windows below are checked for it all the same)
            verdict[qi] = (dup and g_src == src, dup and g_src != src)
        if not dup:
            g_data, g_t, g_src = data, t, src
    for i, (_, t, kind, src, r, tcd, data) in enumerate(queries):
        dropped, other_source_dup = verdict[i]
        if dropped or kind.startswith('tc'):
            continue
        # a TC train in progress from this source is answered together with this query - still within this query's windows
        want = {'ptr': [px, py], 'ptr-known': [py], 'multi': [px, py], 'srv': [('DNSService', XN.lower(), 33, HN.lower())],
                'a': [('DNSAddress', HN.lower(), 1, '')]}[kind]
        # a truncated train from the same source still on hold: this query ends the hold and is answered together with the
        # deferred packets as ONE assembled query (several questions, so not an "at once" case)
        in_train = any(q[2].startswith('tc') and q[3] == src and 0 <= t - q[1] <= tc_hold(q)
                       for q in queries[:i])
        if any(q[2] == 'tc-known-y' and q[3] == src and 0 <= t - q[1] <= tc_hold(q) for q in queries[:i]):
            want = [w for w in want if w != py]        # the waiting packet of the train lists it as a known answer
        for ident in want:
            last = [s for s in sightings(ident, t) if s < t or (s == t and False)]
            protected = bool(last) and t - max(last) < 1000
            after = [ts for ts, ids, _, _ in mc if ident in ids and ts >= t]
            if kind in ('srv', 'a') and not in_train:
                if protected:
                    lo, hi = max(last) + 1000, t + 1200
                else:
                    lo, hi = t, t
            elif protected:
                lo, hi = max(max(last) + 1000, t + 1020), t + 1200
            else:
                lo, hi = t + 20, t + 500
            hits = [s for s in after if s <= hi]
            if not hits:
                tag = ' [identical to the previous datagram from another source]' if other_source_dup else ''
                return f"query {kind} at +{t}: no multicast of {ident} by +{hi} (next at {after[:1]}){tag}"
            # lower bound: a transmission of the record as an ANSWER (additionals are not rate-limited) before +lo must be owed to another
            # query - one that was handled, asks for this record, and whose own window (at once / 20..500 ms, or from one second after the
            # sighting that protected it until 1.2 s after its arrival) contains the instant.
            # Truncated trains are treated leniently (any time after their hold).
            early = [s_ for s_, _, _, ans in mc if ident in ans and t <= s_ < lo]
            for s_ in early[:1]:
                def owes(j, q):
                    tj, kj = q[1], q[2]
                    if j == i or tj > s_ or verdict[j][0]:
                        return False
                    if kj.startswith('tc') or any(q2[2].startswith('tc') and q2[3] == q[3] and 0 <= tj - q2[1] <= tc_hold(q2) for q2 in queries[:j]):
                        return True
                    asks = {'ptr': (px, py), 'ptr-known': (py,), 'multi': (px, py), 'srv': (('DNSService', XN.lower(), 33, HN.lower()),),
                            'a': (('DNSAddress', HN.lower(), 1, ''),)}[kj]
                    if ident not in asks:
                        return False
                    # (the two queues are not de-duplicated against each other, so "already served" is no argument: only the window counts)
                    seen = [s2 for s2 in sightings(ident, tj) if s2 < tj]
                    if seen and tj - max(seen) < 1000:
                        return max(seen) + 1000 <= s_ <= tj + 1200
                    return s_ == tj if kj in ('srv', 'a') else tj + 20 <= s_ <= tj + 500
                if not any(owes(j, q) for j, q in enumerate(queries)):
                    return f"query {kind} at +{t}: {ident} multicast at +{s_}, earlier than +{lo}"
    # a truncated query and its continuation from the same source are answered ONCE, with the union of their known answers: the first packet
    # lists one pointer as known, the continuation (inside the hold) the other - neither is multicast as an answer (when that is all the traffic)
    if len(queries) == 2 and queries[0][2] == 'tc-known-y' and queries[1][2] == 'ptr-known' and queries[0][3] == queries[1][3] \
            and 0 < queries[1][1] - queries[0][1] < tc_hold(queries[0]) and not verdict[1][0]:
        for s_, _, _, ans in mc:
            for ident in (px, py):
                if ident in ans and s_ >= queries[0][1]:
                    return (f"truncated query at +{queries[0][1]} (knows {YN}) and its continuation at +{queries[1][1]} (knows {XN}) from one source: "
                            f"{ident[3]} multicast at +{s_} although the assembled query lists it as a known answer")
    # TC: nothing answered on behalf of a truncated query before the 400 ms hold is over (when it is the only traffic)
    if len(queries) == 1 and queries[0][2] == 'tc':
        t = queries[0][1]
        first = [ts for ts, ids, _, _ in mc if ts >= t]
        if not first:
            return "truncated query never answered"
        if not (t + 400 + 20 <= first[0] <= t + 500 + 120):
            return f"truncated query at +{t} answered at +{first[0]} (expected hold 400-500 ms plus 20-120 ms jitter)"
    return None


def gen_train(rng):
    """one truncated packet train from one source and nothing else: 1-4 packets, every gap shorter than the shortest hold, distinct bytes
    (ids), each listing none, one or both pointers as known answers"""
    n = rng.choice([1, 2, 2, 3, 3, 3, 4, 4])
    evs, t = [], 0
    for k in range(n):
        kind = rng.choice(['tc', 'tc', 'tc-known-x', 'tc-known-y', 'tc-known-xy'])
        evs.append((t, kind, '10.0.0.7', rng.choice([20, 57, 120]), rng.choice([400, 431, 450, 500]), 100 + k))
        t += rng.choice([1, 50, 150, 200, 250, 300, 350, 399])
    return evs


def oracle_train(evs, log, esc):
    """the train is held until 400-500 ms (the draw of its LAST packet) after its last packet, then answered once - after the usual 20-120 ms -
    with the union of the known answers of all its packets"""
    if esc:
        return f"exception in the event loop: {esc[0]}"
    queries = [e for e in log if e[0] == 'query']
    t_first, t_last, hold = queries[0][1], queries[-1][1], queries[-1][5]
    known = set()
    for q in queries:
        known |= {'tc-known-x': {XN.lower()}, 'tc-known-y': {YN.lower()}, 'tc-known-xy': {XN.lower(), YN.lower()}}.get(q[2], set())
    want = {XN.lower(), YN.lower()} - known
    got = []
    for (_, ts, dest, data) in [e for e in log if e[0] == 'send']:
        if not (dest and dest[0] == '224.0.0.251') or ts < t_first:
            continue
        m, recs = records_in(data)
        if m.is_query():
            continue
        for r in recs[:m.num_answers] if hasattr(m, 'num_answers') else recs:
            if r[0] == 'DNSPointer' and r[1] == T.lower():
                got.append((ts, r[3]))
    lo, hi = t_last + hold + 20, t_last + hold + 120
    for ts, alias in got:
        if alias in known:
            return f"train {[(q[1], q[2]) for q in queries]}: {alias} multicast at +{ts} although a packet of the train lists it as a known answer"
        if not lo <= ts <= hi:
            return (f"train {[(q[1], q[2]) for q in queries]}: {alias} multicast at +{ts}; the hold of the last packet (+{t_last}, {hold} ms) "
                    f"plus 20-120 ms gives +{lo}..+{hi}")
    for alias in want:
        if sum(1 for ts, a in got if a == alias) != 1:
            return f"train {[(q[1], q[2]) for q in queries]}: {alias} answered {sum(1 for ts, a in got if a == alias)} times (expected once, at +{lo}..+{hi})"
    return None


def jsonable(x):
    from props.c05 import jsonable as j
    return j(x)


def run(ctx):
    ok = ctx.build(TARGETS)
    if ok:
        ok = ctx.assumptions()
    ctx.count_obligations('Props/C12.v')
    rng = ctx.rng
    quick = ctx.tier == 'quick'
    # (1)
    sched = []
    while len(sched) < (600 if quick else 8000):
        s = gen_schedule(rng)
        if s:
            sched.append(s)
    coq_cases = []
    qfails = []
    for cfg, adds in sched:
        horizon = adds[-1][1] + 3000
        obs = run_queue_impl(cfg, adds, horizon)
        coq_cases.append((coq_schedule(cfg, adds, horizon), obs, (cfg, adds)))
        why = oracle_queue(cfg, adds, obs)
        if why:
            qfails.append(((cfg, adds), why))
        ctx.count(('q', repr((cfg, adds))), nontrivial=len(adds) > 1)
        ctx.hist(f"queue:{cfg[1]}:sends={min(len(obs), 4)}")
    # (2)
    fails = []
    n_sc = 300 if quick else 5000
    # corpus first: the recorded finding C12-dupguard (the third copy, from another host, is dropped while the answer to the second is held
    # by the one-second protection)
    corpus = [[(0, 'ptr', '10.0.0.8', 57, 500, 0), (999, 'ptr', '10.0.0.7', 57, 400, 0), (1199, 'ptr', '10.0.0.8', 20, 400, 0)]]
    # the one-second protection meets the "answered at once" types: a single SRV / A question less than a second after the record was seen
    # (as the answer to the same question from another host, or as an additional of a pointer answer)
    for gap in (60, 250, 390):
        corpus.append([(0, 'tc-known-y', '10.0.0.7', 57, 400, 5), (gap, 'ptr-known', '10.0.0.7', 57, 450, 6)])
    for first, gap, second in (('srv', 200, 'srv'), ('a', 500, 'a'), ('ptr', 400, 'srv'), ('ptr', 999, 'a'), ('srv', 999, 'srv'), ('ptr', 1200, 'a')):
        corpus.append([(0, first, '10.0.0.8', 57, 450, 0), (gap, second, '10.0.0.7', 57, 450, 0)])
    for k in range(n_sc + len(corpus)):
        evs = corpus[k] if k < len(corpus) else gen_scenario(rng)
        log, esc = run_scenario(evs)
        why = oracle_scenario(log, esc)
        if why:
            fails.append((evs, why))
        ctx.count(('s', repr(evs)), nontrivial=len(evs) > 1)
        for e in evs:
            ctx.hist('scenario-query:' + e[1])
    # (3) truncated packet trains on their own
    tfails = []
    for k in range(120 if quick else 2000):
        evs = gen_train(rng)
        log, esc = run_scenario(evs)
        why = oracle_train(evs, log, esc)
        if why:
            tfails.append((evs, why))
        ctx.count(('t', repr(evs)), nontrivial=len(evs) > 1)
        ctx.hist(f'train:packets={len(evs)}')
    ctx.sample({'queue_schedule': jsonable(sched[0])})
    ctx.sample({'node_scenario(dt, kind, src, mcast_delay, tc_delay, id)': jsonable(gen_scenario(rng))})
    ctx.cov['rule'] = ("(1) add schedules for both queues (0/500 and 1000/200): 1-6 adds with gaps on the grid 0..3000 ms, draws 20..120, TC-style stale arrival "
                       "times, tie-free; compared: time and content of every emitted batch. (2) full-stack scenarios: 1-5 QM queries (PTR, PTR with known answer, "
                       "SRV, A, two-question, TC) from two sources at grid gaps against a host with two services, loop-back on; oracle: windows 20..500 ms, "
                       "immediate types, one-second protection (>= sighting + 1 s, <= query + 1.2 s), no duplicate in a batch, TC hold. (3) truncated trains of 1-4 packets from one "
                       "source, gaps 1..399 ms, each packet listing none / one / both pointers as known: answered once, hold counted from the LAST packet, union of "
                       "known answers. distinct = distinct schedules")
    for sc, why in qfails[:2]:
        ctx.violation({'kind': 'oracle', 'why': why, 'queue_schedule': jsonable(sc), 'broken': None if ok else ctx.build_msg})
    for evs, why in tfails[:2]:
        ctx.violation({'kind': 'oracle', 'why': why, 'scenario': jsonable(evs), 'broken': None if ok else ctx.build_msg}, tags=scenario_tags(evs, why))
    for evs, why in fails[:3]:
        ctx.violation({'kind': 'oracle', 'why': why, 'scenario': jsonable(evs), 'broken': None if ok else ctx.build_msg},
                      tags=scenario_tags(evs, why))
    if not ok:
        if not ctx.violations:
            ctx.violation({'kind': 'broken-obligation', 'broken': ctx.build_msg}, no_input=True)
        return ctx.finish()
    mism = ctx.run_cases('Model.Base Model.OutQueue Model.ValSet Corr.C12', '(Z * Z) * list (Z * Z * Z * answers) * Z', 'c12_run',
                         [(c, o) for c, o, _ in coq_cases], shard=100, mismatch_fn='mismatches_u')
    ctx.cov['traces_validated_against_impl'] = len(coq_cases) - len(mism)
    for idx, model_out in mism[:3]:
        ctx.violation({'kind': 'correspondence', 'what': 'Model.OutQueue disagrees with MulticastOutgoingQueue on the virtual-time loop',
                       'schedule': jsonable(coq_cases[idx][2]), 'implementation': str(coq_cases[idx][1])[:1500], 'model': model_out[:1500]},
                      no_input=True)
    return ctx.finish()


def scenario_tags(evs, why):
    return {'dupguard_other_source'} if 'identical to the previous datagram from another source' in why else set()


def replay(ctx, path):
    r = json.load(open(path))
    if 'scenario' not in r:
        return run(ctx)
    evs = [tuple(e) for e in r['scenario']]
    log, esc = run_scenario(evs)
    why = oracle_scenario(log, esc)
    if not why and evs and all(e[1].startswith('tc') for e in evs) and len({e[2] for e in evs}) == 1:
        why = oracle_train(evs, log, esc)
    print("replay:", f"still fails: {why}" if why else "passes")
    return 1 if why else 0
