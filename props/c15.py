"""C15 - a running instance survives any datagram stream.
Model: coq/Model/Front.v - datagram_received (size guard, duplicate guard, DNSIncoming = Model.WireDec.parse, dispatch, TC deferral)
in front of the node LTS and the encoder behind it, exceptions explicit; theorems coq/Props/C15.v.
Tie: a real instance (registered services, a browser, a lookup in progress) is fed generated datagram streams on the virtual-time
simulator; every datagram_received / reassembly timer / API call is a label (lib/nodesim.py, front mode) replayed through the model,
which must let out the same messages, raise where the implementation raises, and end with the same cache.
Independent oracle: nothing escapes, oversized datagrams cause no reaction, and afterwards a fresh query is answered and a fresh
announcement reaches the browser."""
import json
import struct

from lib import common
from lib.cachesim import rec, mk
from lib.nodesim import NodeRecorder
from lib.simloop import Sim
from props import c03, c09

TARGETS = ['Props/C15.vo', 'Corr/Front.vo']
TA, TB = '_t._tcp.local.', '_u._udp.local.'


def svc(name, t, host, idx, v6=False):
    return dict(type=t, name=f"{name}.{t}", server=host, port=80 + idx, weight=0, priority=0, text=b'\x03a=b', host_ttl=120, other_ttl=4500,
                v4=[bytes([10, 0, 0, 1 + idx])], v6=[bytes([0xfe, 0x80] + [0] * 13 + [idx])] if v6 else [])


# ---------------------------------------------------------------------------------------------------------------
# datagram generators
# ---------------------------------------------------------------------------------------------------------------

def name_bytes(name):
    out = b''
    for lab in name.strip('.').split('.'):
        b = lab.encode()
        out += bytes([len(b)]) + b
    return out + b'\x00'


def valid_query(rng, svcs):
    from zeroconf import DNSOutgoing, DNSQuestion, const
    flags = const._FLAGS_QR_QUERY | (const._FLAGS_TC if rng.random() < 0.15 else 0)
    out = DNSOutgoing(flags, id_=rng.choice([0, 0, 77]))
    for _ in range(rng.choice([1, 1, 2, 3])):
        s = rng.choice(svcs)
        name, ty = rng.choice([(s['type'], 12), (s['name'], 33), (s['name'], 16), (s['server'], 1), (s['server'], 28), (s['name'], 255),
                               ('_services._dns-sd._udp.local.', 12), ('nobody.local.', 1)])
        out.add_question(DNSQuestion(name, ty, const._CLASS_IN | (const._CLASS_UNIQUE if rng.random() < 0.3 else 0)))
    if rng.random() < 0.3:
        s = rng.choice(svcs)
        out.add_answer_at_time(mk(rec('KPointer', s['type'], 12, 1, alias=s['name'], ttl=rng.choice([4500, 2250, 2249]))), 0)
    return out.packets()[0]


def valid_response(rng, peers):
    from zeroconf import DNSOutgoing
    out = DNSOutgoing(0x8400)
    s = rng.choice(peers)
    o = c03.own_records(s)
    # (the same instance also listed under a subtype of the browsed type: two pointer names, one alias)
    recs = [o['ptr'], o['srv'], o['txt'], rec('KPointer', '_x._sub.' + s['type'], 12, 1, alias=s['name'], ttl=o['ptr']['ttl'])] + o['addrs'] + \
        ([o['nsec']] if o['nsec'] else [])
    recs = rng.sample(recs, rng.randint(1, len(recs)))
    if rng.random() < 0.2:
        recs.append(rec('KHinfo', s['server'], 13, 0x8001, cpu='cpu', os='os', ttl=120))
    for r in recs:
        out.add_answer_at_time(mk(dict(r, ttl=rng.choice([r['ttl'], r['ttl'], 0, 1]))), 0)
    return out.packets()[0]


def mutate(rng, data):
    b = bytearray(data)
    k = rng.choice(['truncate', 'flip', 'flip', 'byte', 'counts', 'insert', 'dup-tail', 'ptr'])
    if k == 'truncate' and len(b) > 1:
        return bytes(b[:rng.randrange(len(b))])
    if k == 'flip':
        for _ in range(rng.choice([1, 1, 2, 5])):
            i = rng.randrange(len(b))
            b[i] ^= 1 << rng.randrange(8)
    elif k == 'byte':
        for _ in range(rng.choice([1, 2, 4])):
            b[rng.randrange(len(b))] = rng.choice([0, 0xC0, 0xFF, 0x3F, 0x40, 0x80, rng.randrange(256)])
    elif k == 'counts' and len(b) >= 12:
        i = rng.choice([4, 6, 8, 10])
        b[i:i + 2] = struct.pack('>H', rng.choice([0, 1, 2, 5, 255, 65535]))
    elif k == 'insert':
        i = rng.randrange(len(b) + 1)
        b[i:i] = bytes(rng.randrange(256) for _ in range(rng.choice([1, 2, 8])))
    elif k == 'dup-tail':
        b += b[12:]
    elif k == 'ptr' and len(b) > 14:
        i = rng.randrange(12, len(b) - 1)
        b[i] = 0xC0
        b[i + 1] = rng.choice([i & 0xFF, 12, (i + 2) & 0xFF, len(b) & 0xFF, 0])
    return bytes(b)


def hostile_compression(rng):
    kind = rng.choice(['self-loop', 'two-loop', 'forward-chain', 'long-chain', 'into-label', 'ptr-past-end', 'deep-question'])
    hdr = lambda nq, na: struct.pack('>HHHHHH', 0, 0x8400 if na else 0, nq, na, 0, 0)  # noqa: E731
    tail_q = struct.pack('>HH', 12, 1)
    tail_a = struct.pack('>HHIH', 1, 1, 120, 4) + bytes([10, 0, 0, 9])
    if kind == 'self-loop':
        return hdr(1, 0) + b'\xc0\x0c' + tail_q
    if kind == 'two-loop':
        return hdr(1, 0) + b'\x01a\xc0\x10' + b'\x01b\xc0\x0c' + tail_q
    if kind in ('forward-chain', 'long-chain'):
        n = rng.choice([3, 20, 126, 127, 128, 129, 130, 200]) if kind == 'forward-chain' else rng.choice([600, 1200, 3000])
        # the name at offset 12 points forward, hop by hop, to a real name at the end
        body = b''
        off = 12
        for i in range(n):
            nxt = off + 2
            body += struct.pack('>H', 0xC000 | (nxt & 0x3FFF))
            off = nxt
        body += name_bytes('x.local.')
        return (hdr(0, 1) + body + tail_a) if rng.random() < 0.5 else (hdr(1, 0) + body + tail_q)
    if kind == 'into-label':
        return hdr(0, 1) + b'\x05hello\x05local\x00' + tail_a[:0] + struct.pack('>HHIH', 12, 1, 120, 2) + b'\xc0\x0e'
    if kind == 'ptr-past-end':
        return hdr(1, 0) + b'\xc3\xff' + tail_q
    n = rng.choice([10, 63, 64, 127, 128])
    return hdr(1, 0) + b''.join(b'\x01a' for _ in range(n)) + b'\x00' + tail_q


def legacy_bad_utf8(rng, svcs):
    s = rng.choice(svcs)
    n = rng.choice([1, 21, 22, 30, 63])
    bad = bytes([n]) + bytes(rng.choice([0xFF, 0xC0, 0x80]) for _ in range(n)) + b'\x05local\x00' + struct.pack('>HH', 1, 1)
    good = name_bytes(s['type']) + struct.pack('>HH', 12, rng.choice([1, 0x8001]))
    qs = [bad, good] if rng.random() < 0.5 else [good, bad]
    return struct.pack('>HHHHHH', 9, 0, 2, 0, 0, 0) + qs[0] + qs[1]


def raw_strings(rng, svcs):
    """structurally valid messages whose character strings (HINFO cpu / os, TXT) and names carry arbitrary, mostly non-UTF-8 bytes:
    as a response, or as the known-answer section of a query for a registered service"""
    def junk(n):
        return bytes(rng.choice([0xFF, 0xC0, 0x80, 0xE9, 0xF5, 0x41, rng.randrange(256)]) for _ in range(n))

    def cstr():
        b = junk(rng.choice([0, 1, 3, 4, 20]))
        return bytes([len(b)]) + b
    owner = name_bytes(rng.choice(['hp0.local.', 'x.local.']))
    rr = []
    for _ in range(rng.choice([1, 2])):
        kind = rng.choice(['hinfo', 'hinfo', 'txt', 'ptr-junk-name'])
        if kind == 'hinfo':
            rd = cstr() + cstr()
            rr.append(owner + struct.pack('>HHIH', 13, 0x8001, 120, len(rd)) + rd)
        elif kind == 'txt':
            rd = cstr() + cstr()
            rr.append(owner + struct.pack('>HHIH', 16, 0x8001, 120, len(rd)) + rd)
        else:
            lab = junk(rng.choice([1, 5, 21, 22, 63]))
            rd = bytes([len(lab)]) + lab + b'\x05local\x00'
            rr.append(name_bytes('_u._udp.local.') + struct.pack('>HHIH', 12, 1, 4500, len(rd)) + rd)
    if rng.random() < 0.5 or not svcs:
        return struct.pack('>HHHHHH', 0, 0x8400, 0, len(rr), 0, 0) + b''.join(rr)
    s = rng.choice(svcs)
    q = name_bytes(s['type']) + struct.pack('>HH', 12, rng.choice([1, 0x8001]))
    return struct.pack('>HHHHHH', 3, 0, 1, len(rr), 0, 0) + q + b''.join(rr)


def short_address(rng, host):
    """an address record whose rdata is cut short by the end of the datagram (rdlength promises 16 / 4 bytes): the decoder hands out
    whatever bytes are left - also an 'AAAA' of 4 bytes that look like a link-local IPv4 address"""
    ty = rng.choice([28, 28, 1])
    left = rng.choice([4, 4, 0, 1, 8, 15, 3])
    body = bytes(rng.choice([0xA9, 0xFE, 0x01, 0x02]) for _ in range(left)) if left != 4 else bytes([0xA9, 0xFE, rng.randrange(256), rng.randrange(256)])
    return struct.pack('>HHHHHH', 0, 0x8400, 0, 1, 0, 0) + name_bytes(host) + struct.pack('>HHIH', ty, 0x8001, 120, 16 if ty == 28 else 4) + body


def oversize(rng, base):
    n = rng.choice([8966, 8967, 8967, 9000, 20000])
    return base + bytes(n - len(base)) if n > len(base) else base


def gen_stream(rng, svcs, peers):
    out = []
    t = 0
    prev = None
    for _ in range(rng.choice([3, 6, 10, 16])):
        kind = rng.choice(['query', 'query', 'response', 'response', 'mut-q', 'mut-r', 'mut-r', 'random', 'hostile', 'legacy-utf8', 'oversize', 'repeat',
                           'header', 'follow-up', 'raw-strings', 'short-address'])
        if kind == 'query':
            d = valid_query(rng, svcs)
        elif kind == 'response':
            d = valid_response(rng, peers)
        elif kind == 'mut-q':
            d = mutate(rng, valid_query(rng, svcs))
        elif kind == 'mut-r':
            d = mutate(rng, valid_response(rng, peers))
        elif kind == 'random':
            d = bytes(rng.randrange(256) for _ in range(rng.choice([0, 1, 5, 11, 12, 13, 40, 100])))
        elif kind == 'hostile':
            d = hostile_compression(rng)
        elif kind == 'legacy-utf8':
            d = legacy_bad_utf8(rng, svcs)
        elif kind == 'header':
            # a bare header (or one that promises sections that are not there): query / truncated query / response flags
            d = struct.pack('>HHHHHH', rng.choice([0, 5]), rng.choice([0, 0x0200, 0x0200, 0x8400, 0x8600, 0x0100]), rng.choice([0, 0, 1]),
                            rng.choice([0, 0, 1]), rng.choice([0, 0, 1]), 0)
        elif kind == 'follow-up':
            d = valid_query(rng, svcs)
        elif kind == 'raw-strings':
            d = raw_strings(rng, svcs)
        elif kind == 'short-address':
            d = short_address(rng, rng.choice(peers)['server'])
        elif kind == 'oversize':
            d = oversize(rng, valid_query(rng, svcs) if rng.random() < 0.5 else valid_response(rng, peers))
        else:
            d = prev[1] if prev else valid_query(rng, svcs)
        t += rng.choice([0, 0, 1, 5, 100, 400, 999, 1000, 1001, 3000]) if kind != 'follow-up' else rng.choice([0, 1, 100, 399, 450])
        port = 40000 if kind == 'legacy-utf8' or rng.random() < 0.15 else 5353
        src = rng.choice(['10.0.0.7', '10.0.0.7', '10.0.0.8']) if kind != 'follow-up' or not out else out[-1]['src']
        prev = (kind, d)
        out.append(dict(dt=t, kind=kind, data=d, src=src, port=port))
    return out


def gen_scenario(rng, v6=False):
    svcs = [svc(f"s{i}", rng.choice([TA, TA, TB]), rng.choice(['hs.local.', f"h{i}.local."]), i, v6=rng.random() < 0.3) for i in range(rng.choice([0, 1, 2, 3]))]
    peers = [svc(f"p{i}", TB, f"hp{i}.local.", 10 + i, v6=rng.random() < 0.5) for i in range(2)]
    stream = gen_stream(rng, svcs or peers, peers)
    if v6:
        # the IPv6 socket: source tuples carry a scope id, address records learned there are scoped; a lookup for the first peer is in
        # progress while a cut-short address record of its host and then its complete announcement arrive
        o = c03.own_records(peers[0])
        from zeroconf import DNSOutgoing
        ann = DNSOutgoing(0x8400)
        for r in [o['srv'], o['txt']] + o['addrs']:
            ann.add_answer_at_time(mk(r), 0)
        stream = [dict(dt=5, kind='short-address', data=short_address(rng, peers[0]['server']), src='fe80::7', port=5353),
                  dict(dt=rng.choice([10, 300, 1200]), kind='response', data=ann.packets()[0], src='fe80::7', port=5353)] + \
                 [dict(d, dt=d['dt'] + 1500, src='fe80::' + d['src'][-1]) for d in stream]
    return dict(svcs=svcs, peers=peers, stream=stream, browser=rng.random() < 0.7, lookup=True if v6 else rng.random() < 0.5, v6=v6,
                long=rng.random() < 0.2, replay_probe=rng.choice([0, 0, 0, 500, 700, 999]),
                mcast=[rng.choice([20, 70, 120]) for _ in range(60)], tcd=[rng.choice([400, 450, 500]) for _ in range(20)],
                fq=[rng.choice([20, 57, 120]) for _ in range(6)])


# ---------------------------------------------------------------------------------------------------------------
# implementation
# ---------------------------------------------------------------------------------------------------------------

import contextlib


@contextlib.contextmanager
def watchdog(res, d):
    """a datagram is handled in milliseconds: 5 s without returning is a handler that does not finish"""
    import signal

    def too_long(signum, frame):
        raise RuntimeError('datagram_received did not return within 5 s')
    old_handler = signal.signal(signal.SIGALRM, too_long)
    signal.setitimer(signal.ITIMER_REAL, 5.0)
    try:
        yield
    finally:
        signal.setitimer(signal.ITIMER_REAL, 0)
        signal.signal(signal.SIGALRM, old_handler)


def run_scenario(sc):
    import asyncio
    from zeroconf import DNSOutgoing, DNSQuestion, const
    from zeroconf.asyncio import AsyncServiceBrowser, AsyncServiceInfo
    res = {'callbacks': [], 'reactions': []}
    with Sim() as sim:
        holder = {}

        async def main():
            nr = NodeRecorder(sim).install(front=True)
            holder['nr'] = nr
            a = await sim.start_host('A', '10.0.0.1', 'fe80::1', families=('v6',) if sc.get('v6') else ('v4',))
            nr.attach(a)
            sim.randoms['mcast_delay'] = list(sc['mcast'])
            sim.randoms['tc_delay'] = list(sc['tcd'])
            sim.randoms['first_query_delay'] = list(sc['fq'])
            probe_svc = svc('probe', TA, 'hprobe.local.', 9)
            for s in sc['svcs'] + [probe_svc]:
                rid, task = nr.register(c03.mk_info(s), cooperating_responders=True)
                assert (await task)[0] == 'ok'

            class L:
                def add_service(self, zc, t, name):
                    res['callbacks'].append((sim.now, 'add', name))

                def remove_service(self, zc, t, name):
                    res['callbacks'].append((sim.now, 'remove', name))

                def update_service(self, zc, t, name):
                    res['callbacks'].append((sim.now, 'update', name))
            browser = AsyncServiceBrowser(a.zc, [TB], listener=L()) if sc['browser'] else None
            await sim.sleep(6000)
            t0 = sim.now
            res['t0'] = t0
            tasks = []
            if sc['lookup']:
                async def lookup():
                    info = AsyncServiceInfo(TB, 'p0.' + TB)
                    await info.async_request(a.zc, 3000)
                tasks.append(asyncio.ensure_future(lookup()))
            for d in sc['stream']:
                await sim.sleep_until(t0 + d['dt'])
                mark = len(sim.net.log)
                nlab = len(nr.labels)
                src = (d['src'], d['port'], 0, 3) if sc.get('v6') else (d['src'], d['port'])
                with watchdog(res, d):
                    sim.net.inject(a, d['data'], src)
                res['reactions'].append((d['kind'], len(d['data']), len(sim.net.log) - mark, len(nr.labels) - nlab))
            # (in one scenario out of five an hour passes first: whatever the stream left scheduled - refresh queries at 75..95 % of the pointers'
            # lifetimes, expiries, the periodic cache cleanup - runs before the liveness probe)
            await sim.sleep(3600 * 1000 if sc.get('long') else 4000)
            if sc.get('replay_probe'):
                # the liveness query itself, replayed faster than once a second just before: copies are ignored for one second after the copy
                # that was HANDLED, so every other one is answered - and so is the liveness query, the fifth of the series
                pq = DNSOutgoing(const._FLAGS_QR_QUERY, id_=4242)
                pq.add_question(DNSQuestion(probe_svc['name'], const._TYPE_SRV, const._CLASS_IN))
                for _ in range(4):
                    sim.net.inject(a, pq.packets()[0], ('fe80::77', 5353, 0, 3) if sc.get('v6') else ('10.0.0.77', 5353))
                    await sim.sleep(sc['replay_probe'])
            # --- is it still alive? a fresh query must be answered, a fresh announcement must reach the browser ---
            res['t_alive'] = sim.now
            mark = len(sim.net.log)
            q = DNSOutgoing(const._FLAGS_QR_QUERY, id_=4242)
            q.add_question(DNSQuestion(probe_svc['name'], const._TYPE_SRV, const._CLASS_IN))
            sim.net.inject(a, q.packets()[0], ('fe80::77', 5353, 0, 3) if sc.get('v6') else ('10.0.0.77', 5353))
            # ... and a pointer question, whose answer goes through the aggregation queue and its timers
            q2 = DNSOutgoing(const._FLAGS_QR_QUERY, id_=4243)
            q2.add_question(DNSQuestion(probe_svc['type'], const._TYPE_PTR, const._CLASS_IN))
            sim.net.inject(a, q2.packets()[0], ('fe80::79', 5353, 0, 3) if sc.get('v6') else ('10.0.0.79', 5353))
            ncb = len(res['callbacks'])
            fresh = svc('fresh', TB, 'hfresh.local.', 12)
            o = c03.own_records(fresh)
            ann = DNSOutgoing(0x8400)
            for r in [o['ptr'], o['srv'], o['txt']] + o['addrs']:
                ann.add_answer_at_time(mk(r), 0)
            sim.net.inject(a, ann.packets()[0], ('fe80::78', 5353, 0, 3) if sc.get('v6') else ('10.0.0.78', 5353))
            await sim.sleep(1500)
            # (the SRV record in the ANSWER section: as an additional of the pointer answer it would not show that the SRV question was answered)
            res['answered'] = any(any(r.type == 33 and r.name == probe_svc['name'] and r.ttl > 0
                                      for r in c09.parse(data).answers()[:c09.parse(data).num_answers])
                                  for (ms, host, dest, data, idx) in sim.net.log[mark:] if host == 'A' and not c09.parse(data).is_query())
            res['ptr_answered'] = any(any(r.type == 12 and r.alias == probe_svc['name'] and r.ttl > 0 for r in c09.parse(data).answers())
                                      for (ms, host, dest, data, idx) in sim.net.log[mark:] if host == 'A' and not c09.parse(data).is_query())
            res['fresh_added'] = ('add', fresh['name']) in [(c[1], c[2]) for c in res['callbacks'][ncb:]]
            res['dump'] = nr.cache_dump()
            for t in tasks:
                if not t.done():
                    t.cancel()
            nr.uninstall()
            if browser:
                await browser.async_cancel()
            await a.azc.async_close()
        try:
            sim.run(main())
        finally:
            if 'nr' in holder:
                holder['nr'].uninstall()
        res['loop_escaped'] = [str(e) for e in sim.loop.escaped]
    nr = holder['nr']
    res['escaped'] = nr.escaped
    res['labels'], res['obs'] = nr.labels, nr.obs + [res.get('dump', [])]
    return res


def oracle(sc, res):
    if res['escaped']:
        return f"exception escaped from datagram_received / a reassembly timer: {res['escaped'][0]}"
    if res['loop_escaped']:
        return f"exception in the event loop: {res['loop_escaped'][0][:300]}"
    for (kind, n, sent, nlab) in res['reactions']:
        if n > 8966 and sent:
            return f"a datagram of {n} bytes (over 8966) caused {sent} transmissions"
    if 'answered' not in res:
        return "the scenario did not run to its end"
    if not res['answered']:
        return "after the stream a well-formed query for a registered service was not answered"
    if not res.get('ptr_answered', True):
        return "after the stream a well-formed pointer query for a registered type was not answered within 1.5 s"
    if sc['browser'] and not res['fresh_added']:
        return "after the stream an announcement of a new service did not reach the browser"
    return None


def run(ctx):
    ok = ctx.build(TARGETS)
    if ok:
        ok = ctx.assumptions()
    ctx.count_obligations('Props/C15.v')
    rng = ctx.rng
    n = 300 if ctx.tier == 'quick' else 5000
    scenarios = [gen_scenario(rng) for _ in range(n)]
    coq_cases, fails = [], []
    for sc in scenarios:
        res = run_scenario(sc)
        why = oracle(sc, res)
        if why:
            fails.append((sc, why))
        coq_cases.append((common.clist(res['labels']), res['obs'], sc))
        ctx.count(repr(sc), nontrivial=len(sc['stream']) > 3)
        for d, (kind, nbytes, sent, nlab) in zip(sc['stream'], res['reactions']):
            ctx.hist('dgram:' + kind)
            ctx.hist('size:' + ('>8966' if nbytes > 8966 else '<=8966'))
            ctx.hist('reaction:' + ('sends' if sent else 'silent'))
        ctx.hist(f"services:{len(sc['svcs'])}")
    # the same on an IPv6 socket (scoped source tuples, scoped address records): decided by the oracle only - the byte-level model has
    # one IPv4 socket
    for _ in range(60 if ctx.tier == 'quick' else 800):
        sc = gen_scenario(rng, v6=True)
        res = run_scenario(sc)
        why = oracle(sc, res)
        if why:
            fails.append((sc, why))
        ctx.count(repr(sc), nontrivial=True)
        ctx.hist('ipv6-stream')
    ctx.sample(c09.jsonable(scenarios[0]))
    ctx.cov['rule'] = ("one instance (0-3 registered services plus a probe service, optionally a browser and a 3 s lookup in progress) receives streams of "
                       "3-16 datagrams: valid queries (1-3 questions, QU/QM, TC, known answers) and responses (peer records incl. HINFO, TTL 0/1), "
                       "mutated copies (truncation, bit flips, byte overwrite, count fields, insertions, duplicated tail, injected pointers), random bytes "
                       "(0-100), hostile compression (self/two-node loops, forward chains of 3..3000 hops, pointer into a label / past the end, 128 labels), "
                       "legacy-unicast queries with invalid UTF-8 labels of 1..63 bytes, datagrams of 8966/8967/9000/20000 bytes, exact repeats; gaps "
                       "0..3000 ms incl. 999/1000/1001; mDNS and legacy source ports; afterwards a liveness probe (query + announcement), in half of the scenarios preceded by four copies of the liveness query at 500 / 700 / 999 ms")
    for sc, why in fails[:3]:
        ctx.violation({'kind': 'oracle', 'why': why, 'scenario': c09.jsonable(sc)})
    if not ok:
        if not ctx.violations:
            ctx.violation({'kind': 'broken-obligation', 'broken': ctx.build_msg}, no_input=True)
        return ctx.finish()
    try:
        mism = ctx.run_cases('Model.Base Model.PyRec Model.Respond Model.Register Model.Node Model.Front Model.ValSet Corr.Front', 'list flabel', 'front_run',
                             [(c, o) for c, o, _ in coq_cases], shard=max(4, len(coq_cases) // (2 * common.NPROC) + 1), mismatch_fn='mismatches_u',
                             tag='c15_front', timeout=1800)
    except RuntimeError as e:
        ctx.violation({'kind': 'correspondence', 'what': 'the logged label sequence could not be replayed', 'error': str(e)[-1500:]}, no_input=True)
        return ctx.finish()
    ctx.cov['traces_validated_against_impl'] = len(coq_cases) - len(mism)
    for idx, model_out in mism[:3]:
        from lib import valparse
        try:
            diff = valparse.first_diff(valparse.canon(valparse.parse(model_out)), valparse.canon(valparse.to_plain(coq_cases[idx][1])))
        except Exception as e:  # noqa: BLE001
            diff = f"(diff unavailable: {e})"
        ctx.violation({'kind': 'correspondence', 'what': 'Model.Front (datagram path) disagrees with the implementation',
                       'scenario': c09.jsonable(coq_cases[idx][2]), 'first_difference': str(diff)[:2000]}, no_input=True)
    return ctx.finish()


def replay(ctx, path):
    from props.c05 import unjson
    r = json.load(open(path))
    if 'scenario' not in r:
        return run(ctx)
    sc = unjson(r['scenario'])
    res = run_scenario(sc)
    why = oracle(sc, res)
    print("replay:", f"still fails: {why}" if why else "passes")
    return 1 if why else 0
