"""C05 - record cache: all lookup paths agree with a plain RFC 6762 section 10 reference model.
C06 shares this module (props/c06.py sets FOCUS='C06': listener contract, re-entrancy)."""
import itertools
import json

from lib import cachesim, common, refcache
from lib.cachesim import rec

TARGETS_FOR = {'C05': ['Props/C05.vo', 'Corr/C05.vo'], 'C06': ['Props/C06.vo', 'Corr/C05.vo']}

T, X, Y, H, G = '_t._tcp.local.', 'x._t._tcp.local.', 'y._t._tcp.local.', 'h.local.', 'g.local.'

VOCAB = [
    rec('KPointer', T, 12, alias=X),
    rec('KPointer', T, 12, alias=Y),
    rec('KService', X, 33, port=80, server=H),
    rec('KService', X, 33, port=81, server=G),
    rec('KText', X, 16, text=b'\x01a'),
    rec('KText', X, 16, text=b'\x01b'),
    rec('KAddress', H, 1, address=b'\x01\x02\x03\x04'),
    rec('KAddress', H, 1, address=b'\x01\x02\x03\x05'),
    rec('KAddress', H, 28, address=bytes(range(16))),
    rec('KNsec', H, 47, next_name=H, rdtypes=[1, 28]),
    rec('KService', Y, 33, port=80, server=H),
    rec('KHinfo', H, 13, cpu='c', os='o'),
]
TTLS = [0, 1, 2, 120, 1124, 1125, 4500]


def respell(d):
    """a differently-cased spelling of the same record (owner name, PTR target, SRV host)"""
    d = dict(d, name=d['name'].upper().replace('.LOCAL.', '.local.') if d['name'] != T else '_T._tcp.local.')
    if d['alias']:
        d['alias'] = d['alias'].upper()
    if d['server']:
        d['server'] = d['server'].upper()
    return d


def probes():
    names = [T, X, Y, H, G, 'X._T._TCP.LOCAL.']
    details = [(T, 12, 1), (X, 33, 1), (X, 16, 1), (H, 1, 1), (H, 28, 1), (H, 47, 1), ('H.LOCAL.', 1, 1), (H, 1, 3), (Y, 33, 1)]
    recs = VOCAB + [respell(VOCAB[0]), respell(VOCAB[2])]
    servers = [H, G, 'H.Local.']
    alias = [(T, X), (T, Y), ('_T._tcp.local.', X), (T, X.upper())]
    return cachesim.Probes(names, details, recs, servers, alias)


def occurrence(rng, idxs=None):
    d = dict(VOCAB[rng.choice(idxs) if idxs else rng.randrange(len(VOCAB))])
    if rng.random() < 0.25:
        d = respell(d)
    d['ttl'] = rng.choice(TTLS)
    if rng.random() < 0.4:
        d['cls'] = d['cls'] | 0x8000
    return d


def next_time(rng, now, sim_records):
    """clock steps around the 1 s flush window, expiry instants and the 10 s purge grid"""
    choices = [0, 1, 999, 1000, 1001, 2000, 10000]
    # to an expiry instant +-1
    exps = sorted({c + 1000 * t for (c, t) in sim_records if c + 1000 * t > now})
    if exps:
        e = rng.choice(exps[:3])
        choices += [e - now - 1, e - now, e - now + 1]
    grid = (now // 10000 + 1) * 10000
    choices += [grid - now]
    step = rng.choice([c for c in choices if c >= 0])
    return now + step


def gen_history(rng, length, focus):
    hist = []
    now = rng.choice([1, 1000, 5000])
    lifetimes = []
    listeners = [0] if focus == 'C05' else rng.choice([[], [0], [0, 1], [0, 1, 2]])
    for _ in range(length):
        k = rng.random()
        if k < 0.62:
            n = rng.choice([1, 1, 2, 2, 3, 4])
            recs = [occurrence(rng) for _ in range(n)]
            if rng.random() < 0.35 and recs:
                dup = dict(rng.choice(recs))
                if rng.random() < 0.5:
                    dup['ttl'] = rng.choice(TTLS)
                if rng.random() < 0.3:
                    dup = respell(dup)
                recs.insert(rng.randrange(len(recs) + 1), dup)
            reactions = []
            if focus == 'C06' and rng.random() < 0.5:
                # non-conflicting commands: each target id is touched at most once per datagram
                targets = rng.sample([0, 1, 2, 3], rng.randint(1, 2))
                for tgt in targets:
                    reactions.append((rng.choice([0, 1, 2]), rng.choice([1, 2]), (rng.choice(['add', 'remove']), tgt)))
            hist.append(('resp', now, recs, reactions))
            lifetimes += [(now, max(r['ttl'], 1125) if (r['type'] == 12 and r['ttl']) else r['ttl']) for r in recs]
        elif k < 0.85:
            hist.append(('purge', now))
        elif focus == 'C06':
            hist.append(('listen', (rng.choice(['add', 'remove']), rng.choice([0, 1, 2, 3]))))
        else:
            hist.append(('purge', now))
        now = next_time(rng, now, lifetimes[-6:])
    return listeners, hist


def exhaustive_histories(depth):
    """every history of `depth` single/double-record datagrams over a reduced alphabet, each followed by a purge"""
    idxs = [0, 2, 6]
    occs = []
    for i in idxs:
        for ttl in (0, 2, 120):
            for uniq in (0, 0x8000):
                occs.append(dict(VOCAB[i], ttl=ttl, cls=1 | uniq))
    dgrams = [[o] for o in occs] + [[a, b] for a in occs[:6] for b in occs[:6]]
    steps = [0, 1001, 2000]
    for combo in itertools.product(range(len(dgrams)), repeat=depth):
        for st in itertools.product(steps, repeat=depth):
            now = 1000
            hist = []
            for di, s in zip(combo, st):
                hist.append(('resp', now, dgrams[di], []))
                now += s
                hist.append(('purge', now))
            yield [0], hist


CORPUS = [
    # the C05 defect of the pinned tree (repaired by the fix: commit): same record twice in one datagram, later refresh
    ([0], [('resp', 1000, [dict(VOCAB[4], ttl=20), dict(VOCAB[4], ttl=20)], []),
           ('resp', 16000, [dict(VOCAB[4], ttl=120)], []), ('purge', 31000), ('purge', 136000)]),
    ([0], [('resp', 1000, [dict(VOCAB[2], ttl=20), dict(respell(VOCAB[2]), ttl=30)], []),
           ('resp', 16000, [dict(VOCAB[2], ttl=120)], []), ('purge', 31000), ('purge', 136000)]),
    # goodbye / refresh mixtures
    ([0], [('resp', 1000, [dict(VOCAB[0], ttl=4500)], []), ('resp', 2000, [dict(VOCAB[0], ttl=120), dict(VOCAB[0], ttl=0)], []), ('purge', 2000)]),
    ([0], [('resp', 1000, [dict(VOCAB[0], ttl=4500)], []), ('resp', 2000, [dict(VOCAB[0], ttl=0), dict(VOCAB[0], ttl=120)], []), ('purge', 2000)]),
    ([0], [('resp', 1000, [dict(VOCAB[0], ttl=0), dict(VOCAB[0], ttl=120)], []), ('purge', 2000)]),
    # flush window 1000 / 1001 ms
    ([0], [('resp', 1000, [dict(VOCAB[6], ttl=120)], []), ('resp', 2000, [dict(VOCAB[7], ttl=120, cls=0x8001)], []), ('purge', 3000)]),
    ([0], [('resp', 1000, [dict(VOCAB[6], ttl=120)], []), ('resp', 2001, [dict(VOCAB[7], ttl=120, cls=0x8001)], []), ('purge', 3000), ('purge', 3001)]),
    # two SRV sharing a host, one withdrawn
    ([0], [('resp', 1000, [dict(VOCAB[2], ttl=120), dict(VOCAB[10], ttl=120)], []), ('resp', 2000, [dict(VOCAB[2], ttl=0)], []), ('purge', 2000)]),
]


def first_diff(a, b, path=''):
    if type(a) != type(b) and not (isinstance(a, (list, tuple)) and isinstance(b, (list, tuple))):
        return f"{path}: implementation {a!r} vs reference {b!r}"
    if isinstance(a, (list, tuple)):
        if len(a) != len(b):
            return f"{path}: lengths {len(a)} vs {len(b)}: implementation {str(a)[:300]} vs reference {str(b)[:300]}"
        for i, (x, y) in enumerate(zip(a, b)):
            d = first_diff(x, y, f"{path}[{i}]")
            if d:
                return d
        return None
    return None if a == b else f"{path}: implementation {a!r} vs reference {b!r}"


def jsonable(x):
    if isinstance(x, (bytes, bytearray)):
        return {'hex': x.hex()}
    if isinstance(x, dict):
        return {k: jsonable(v) for k, v in x.items()}
    if isinstance(x, (list, tuple)):
        return [jsonable(v) for v in x]
    return x


def unjson(x):
    if isinstance(x, dict) and set(x) == {'hex'}:
        return bytes.fromhex(x['hex'])
    if isinstance(x, dict):
        return {k: unjson(v) for k, v in x.items()}
    if isinstance(x, list):
        return [unjson(v) for v in x]
    return x


def hist_from_json(h):
    out = []
    for e in unjson(h):
        if e[0] == 'resp':
            out.append(('resp', e[1], e[2], [(l, ph, tuple(c)) for l, ph, c in e[3]]))
        elif e[0] == 'purge':
            out.append(('purge', e[1]))
        else:
            out.append(('listen', tuple(e[1])))
    return out


def shrink(P, listeners, hist, fails):
    """greedy delta-debugging on the event list and on the records of each datagram"""
    changed = True
    while changed:
        changed = False
        for i in range(len(hist)):
            cand = hist[:i] + hist[i + 1:]
            if cand and fails(listeners, cand):
                hist, changed = cand, True
                break
            e = hist[i]
            if e[0] == 'resp' and len(e[2]) > 1:
                for j in range(len(e[2])):
                    cand = hist[:i] + [('resp', e[1], e[2][:j] + e[2][j + 1:], e[3])] + hist[i + 1:]
                    if fails(listeners, cand):
                        hist, changed = cand, True
                        break
                if changed:
                    break
    return hist


def canon(obs):
    """the order in which a purge lists the expired records is not part of the property (each exactly once)"""
    return [[o[0], sorted(o[1], key=repr)] + list(o[2:]) if o[0] == 1 else o for o in obs]


def check_one(P, listeners, hist):
    try:
        obs = cachesim.run_history(P, listeners, hist)
    except AssertionError as e:
        return None, f"listener contract assertion failed in the harness: {e}"
    ref = refcache.run_history(P, listeners, hist)
    return obs, first_diff(canon(obs), canon(ref), 'event')


def run(ctx, focus='C05'):
    ok = ctx.build(TARGETS_FOR[focus])
    if ok:
        ok = ctx.assumptions()
    ctx.count_obligations(f'Props/{focus}.v')
    P = probes()
    rng = ctx.rng
    cases = list(CORPUS)
    n_rand = 500 if ctx.tier == 'quick' else 3000
    max_len = 10 if ctx.tier == 'quick' else 30
    for _ in range(n_rand):
        cases.append(gen_history(rng, rng.randint(2, max_len), focus))
    if focus == 'C05':
        ex = list(exhaustive_histories(1)) if ctx.tier == 'quick' else list(exhaustive_histories(2))
        if ctx.tier == 'thorough' and len(ex) > 8000:
            ex = rng.sample(ex, 8000)
        cases += ex
        ctx.cov['exhaustive_part'] = f"{len(ex)} histories: {'every' if ctx.tier == 'quick' else 'a sample of the'} depth-{1 if ctx.tier == 'quick' else 2} sequence(s) of 1-2 record datagrams over a reduced alphabet x clock steps"
    ctx.log(f"{len(cases)} histories")
    coq_cases, fails = [], []
    for listeners, hist in cases:
        obs, why = check_one(P, listeners, hist)
        if why:
            fails.append((listeners, hist, obs, why))
            if obs is None:
                continue
        coq_cases.append((cachesim.coq_case(listeners, hist), obs, (listeners, hist)))
        nontrivial = any(e[0] == 'resp' and e[2] for e in hist)
        ctx.count(('h', repr(hist), repr(listeners)), nontrivial=nontrivial)
        for e in hist:
            ctx.hist('event:' + e[0])
            if e[0] == 'resp':
                ids = [refcache.py_ident(r) for r in e[2]]
                if len(set(ids)) < len(ids):
                    ctx.hist('resp:dup-in-datagram')
                if any(r['ttl'] == 0 for r in e[2]):
                    ctx.hist('resp:goodbye')
                if any(r['cls'] & 0x8000 for r in e[2]):
                    ctx.hist('resp:flush')
        for o in obs:
            if o[0] == 1 and o[1]:
                ctx.hist('purge:expired-nonempty')
            if o[0] == 0 and o[1] == 1:
                ctx.hist('resp:listeners-called')
    ctx.sample({'listeners': cases[0][0], 'history': jsonable(cases[0][1])})
    ctx.sample({'listeners': cases[len(CORPUS) + 1][0], 'history': jsonable(cases[len(CORPUS) + 1][1])})
    ctx.cov['rule'] = ("histories of response datagrams (records from a 12-identity vocabulary x 7 TTLs x flush bit x re-cased spelling, "
                       "duplicates inside a datagram), purges and listener changes; clock steps around 1 s, expiry instants +-1 ms and the 10 s grid; "
                       "after every event all lookup paths are probed; distinct = distinct histories; non-trivial = at least one non-empty datagram")
    for listeners, hist, obs, why in fails[:3]:
        small = shrink(P, listeners, list(hist), lambda l, h: check_one(P, l, h)[1] is not None)
        _, why2 = check_one(P, listeners, small)
        ctx.violation({'kind': 'oracle', 'why': why2 or why, 'listeners': listeners, 'history': jsonable(small),
                       'reference': 'lib/refcache.py (flat RFC 6762 section 10 model)',
                       'broken': None if ok else ctx.build_msg})
    if not ok:
        if not ctx.violations:
            ctx.violation({'kind': 'broken-obligation', 'broken': ctx.build_msg}, no_input=True)
        return ctx.finish()
    mism = ctx.run_cases('Model.Base Model.PyRec Model.Cache Model.Ingest Corr.C05', 'list Z * list event', 'run',
                         [(c, o) for c, o, _ in coq_cases], shard=max(20, len(coq_cases) // (2 * common.NPROC) + 1),
                         preamble=f"Definition P : probes := {P.coq()}.\nDefinition run := c05_run P.\n")
    ctx.cov['traces_validated_against_impl'] = len(coq_cases) - len(mism)
    for idx, model_out in mism[:2]:
        listeners, hist = coq_cases[idx][2]
        ctx.violation({'kind': 'correspondence', 'what': 'Corr.C05.c05_run (Model.Cache / Model.Ingest) disagrees with the implementation',
                       'listeners': listeners, 'history': jsonable(hist), 'model': model_out[:3000]}, no_input=True)
    return ctx.finish()


def replay(ctx, path, focus='C05'):
    r = json.load(open(path))
    if 'history' not in r:
        return run(ctx, focus)
    P = probes()
    hist = hist_from_json(r['history'])
    obs, why = check_one(P, r['listeners'], hist)
    print("replay:", f"still fails: {why}" if why else "passes")
    return 1 if why else 0
