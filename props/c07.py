"""C07 - end-to-end discovery converges to the set of registered services.
Model: coq/Model/Link.v (sender node + lossy link + receiving cache and browser), theorems coq/Props/C07.v.
This file is the part of the check that runs the real library: 2-5 real instances share a simulated link (lib/simloop.py) whose
policy delays every delivery by 0..100 ms, duplicates some, and drops exactly one chosen delivery; services are registered, updated,
unregistered and hosts closed at virtual times from milliseconds to more than an hour apart; browsers start before, during and after.
After a settling time every browser must report exactly the instances of its type registered on the link, and the lookups started
from the Added callbacks must have resolved what was advertised."""
import json

from lib.simloop import Sim
from props import c03

TARGETS = ['Props/C07.vo', 'Corr/Link.vo']
TYPES = ['_a._tcp.local.', '_b._tcp.local.', '_c._udp.local.']
SETTLE = 25000


def gen_scenario(rng):
    nh = rng.randint(2, 5)
    ntypes = rng.randint(1, 3)
    types = TYPES[:ntypes]
    nsvc = rng.randint(1, 6)
    svcs = []
    fams = [rng.choice(['v4', 'v4', 'dual']) for _ in range(nh)]      # a host has one address set, shared by its services
    for i in range(nsvc):
        h = rng.randrange(nh)
        t = rng.choice(types)
        fam = fams[h]
        svcs.append(dict(type=t, name=f"i{i}.{t}", server=f"host{h}.local.", port=1000 + i, weight=0, priority=0, text=rng.choice([b'', b'\x03k=v']),
                         host_ttl=120, other_ttl=4500, v4=[bytes([10, 0, 0, 1 + h])],
                         v6=[bytes([0xfe, 0x80] + [0] * 13 + [1 + h])] if fam == 'dual' else [], host=h))
    # timeline: clusters of activity separated by short or long pauses
    ops = []
    t = 1000
    order = list(range(nsvc))
    rng.shuffle(order)

    def gap():
        # (around 120 s the host records of an announcement heard earlier have expired but may not have been purged yet)
        return rng.choice([0, 50, 200, 400, 1000, 3000, 10000, 10000, 119000, 122000, 124000, 127000, 400000, 1500000, 2300000, 3000000, 3300000, 4000000])
    browsers = []
    for b in range(rng.randint(1, 3)):
        browsers.append(dict(host=rng.randrange(nh), types=rng.sample(types, rng.randint(1, ntypes))))
    pending_b = list(range(len(browsers)))
    rng.shuffle(pending_b)
    registered = []
    for i in order:
        while pending_b and rng.random() < 0.5:
            ops.append((t, 'browse', pending_b.pop()))
            t += gap()
        ops.append((t, 'register', i))
        registered.append(i)
        t += gap()
    while pending_b:
        ops.append((t, 'browse', pending_b.pop()))
        t += gap()
    closed = set()
    last_touch = {}
    t = max(t, max(o[0] for o in ops if o[1] == 'register') + 1000)      # changes to a service only after its registration has completed
    for _ in range(rng.choice([0, 0, 1, 2, 3, 4])):
        kind = rng.choice(['unregister', 'unregister', 'update', 'close', 'reregister', 'republish'])
        if kind in ('reregister', 'republish'):
            # a service that was withdrawn comes back (same instance name, same host)
            cands = [i for i in last_touch if i not in registered and svcs[i]['host'] not in closed]
            if not cands:
                kind = 'unregister'
            else:
                i = rng.choice(cands)
                if t - last_touch[i] < 1000 and rng.random() > 0.1:
                    t = last_touch[i] + 1000
                elif rng.random() < 0.5:
                    t = max(ops[-1][0], min(t, last_touch[i] + rng.choice([1000, 2000, 5000, 9000])))      # churn: back within seconds
                last_touch[i] = t
                registered.append(i)
                # (republish: update_service() on a service that is not registered publishes it without probing)
                ops.append((t, 'register' if kind == 'reregister' else 'update', i))
                t += gap()
                continue
        if kind == 'close':
            cands = [h for h in range(nh) if h not in closed and not any(b['host'] == h for b in browsers)]
            if not cands:
                continue
            h = rng.choice(cands)
            recent = [lt for i, lt in last_touch.items() if svcs[i]['host'] == h]
            if recent and t - max(recent) < 1000 and rng.random() > 0.1:
                t = max(recent) + 1000
            closed.add(h)
            registered = [i for i in registered if svcs[i]['host'] != h]
            ops.append((t, 'close', h))
        else:
            cands = [i for i in registered if svcs[i]['host'] not in closed]
            if not cands:
                continue
            i = rng.choice(cands)
            # a change to a service normally waits until the announcements of the previous change are out (the API returns their task);
            # now and then it does not (see the known finding C07-withdrawal-during-broadcast)
            if t - last_touch.get(i, -10 ** 9) < 1000 and rng.random() > 0.1:
                t = last_touch[i] + 1000
            last_touch[i] = t
            if kind == 'unregister':
                registered.remove(i)
            ops.append((t, kind, i))
        t += gap()
    tail = rng.choice([SETTLE, SETTLE, 600000, 5000000])
    return dict(nh=nh, svcs=svcs, browsers=browsers, ops=ops, end=t + tail, seed=rng.randrange(1 << 30), dup=rng.choice([0.0, 0.1, 0.3]),
                drop=rng.choice([None, 'pick']), lookups=True, reuse=rng.random() < 0.5)


def run_scenario(sc, drop_index=None):
    """drop_index: the delivery (global counter) that is lost; None = nothing lost"""
    import asyncio
    import random
    from zeroconf.asyncio import AsyncServiceBrowser, AsyncServiceInfo
    prng = random.Random(sc['seed'])
    counter = {'n': 0}

    dlog = []

    def policy(kind, src, dst, data, seq):
        k = counter['n']
        counter['n'] += 1
        dlog.append((k, clock_ms(), seq))
        if drop_index is not None and k == drop_index:
            return []
        if sc.get('adversary') == 'late-advertisements':
            # the link holds back every datagram that advertises a pointer (TTL > 0) for the full 100 ms and passes everything else at once
            from zeroconf import DNSIncoming
            try:
                adv = any(r.type == 12 and r.ttl > 0 for r in DNSIncoming(data).answers())
            except Exception:  # noqa: BLE001
                adv = False
            return [100 if adv else 1]
        d = [prng.randint(0, 100)]
        if prng.random() < sc['dup']:
            d.append(prng.randint(0, 100))
        return d
    res = {'events': {}, 'lookups': [], 'errors': [], 'delivery_log': dlog}
    holder = {}

    def clock_ms():
        return holder['sim'].now
    with Sim(policy=policy, loopback=True) as sim:
        holder['sim'] = sim
        async def main():
            hosts = []
            for h in range(sc['nh']):
                hosts.append(await sim.start_host(f"H{h}", f"10.0.0.{1 + h}"))
            sim.randoms['mcast_delay'] = [prng.choice([20, 70, 120]) for _ in range(4000)]
            sim.randoms['first_query_delay'] = [sc['fq']] * 50 if sc.get('fq') else [prng.choice([20, 57, 120]) for _ in range(50)]
            sim.randoms['lookup_jitter'] = [prng.choice([20, 57, 120]) for _ in range(2000)]
            infos = {}
            current = {i: dict(s) for i, s in enumerate(sc['svcs'])}
            t0 = sim.now
            tasks = []
            browsers = []
            versions = {}          # name -> list of (time, svc dict) advertised

            def mk_listener(bi, host):
                evs = res['events'].setdefault(bi, [])

                class L:
                    def add_service(self, zc, t, name):
                        evs.append((sim.now - t0, 'add', t, name))
                        if sc['lookups']:
                            tasks.append(asyncio.ensure_future(lookup(zc, t, name, bi)))

                    def remove_service(self, zc, t, name):
                        evs.append((sim.now - t0, 'remove', t, name))

                    def update_service(self, zc, t, name):
                        evs.append((sim.now - t0, 'update', t, name))
                return L()

            async def lookup(zc, t, name, bi):
                info = AsyncServiceInfo(t, name)
                start = sim.now - t0
                try:
                    ok = await info.async_request(zc, 3000)
                except Exception as e:  # noqa: BLE001
                    res['errors'].append(f"lookup raised {e!r}")
                    return
                from zeroconf import IPVersion
                res['lookups'].append(dict(browser=bi, name=name, start=start, end=sim.now - t0, ok=bool(ok), server=info.server, port=info.port,
                                           text=bytes(info.text or b''), v4=sorted(bytes(a) for a in info.addresses_by_version(IPVersion.V4Only)),
                                           v6=sorted(bytes(a) for a in info.addresses_by_version(IPVersion.V6Only))))

            async def do(op):
                kind, arg = op[1], op[2]
                try:
                    if kind == 'browse':
                        b = sc['browsers'][arg]
                        browsers.append(AsyncServiceBrowser(hosts[b['host']].zc, list(b['types']), listener=mk_listener(arg, b['host'])))
                    elif kind == 'register':
                        s = current[arg]
                        if arg in infos and sc.get('reuse'):
                            # the application registers the very object it unregistered, after changing a field in place
                            s = dict(s, port=s['port'] + 7)
                            current[arg] = s
                            infos[arg].port = s['port']
                        else:
                            infos[arg] = c03.mk_info(s)
                        versions.setdefault(s['name'], []).append((sim.now - t0, dict(s)))
                        await (await hosts[s['host']].zc.async_register_service(infos[arg]))
                    elif kind == 'update':
                        s = dict(current[arg], port=current[arg]['port'] + 100, text=b'\x03u=2')
                        current[arg] = s
                        infos[arg] = c03.mk_info(s)
                        versions.setdefault(s['name'], []).append((sim.now - t0, dict(s)))
                        await (await hosts[s['host']].zc.async_update_service(infos[arg]))
                    elif kind == 'unregister':
                        s = current[arg]
                        versions[s['name']].append((sim.now - t0, None))
                        await (await hosts[s['host']].zc.async_unregister_service(infos[arg]))
                    elif kind == 'close':
                        for i, s in current.items():
                            if s['host'] == arg and i in infos:
                                versions[s['name']].append((sim.now - t0, None))
                        await hosts[arg].azc.async_close()
                except Exception as e:  # noqa: BLE001
                    res['errors'].append(f"{kind} {arg} raised {e!r}")
            for op in sc['ops']:
                await sim.sleep_until(t0 + op[0])
                tasks.append(asyncio.ensure_future(do(op)))
            await sim.sleep_until(t0 + sc['end'])
            res['versions'] = versions
            for t in tasks:
                if not t.done():
                    t.cancel()
            for b in browsers:
                await b.async_cancel()
            for h in hosts:
                await h.azc.async_close()
        sim.run(main())
        res['escaped'] = [str(e) for e in sim.loop.escaped]
        res['deliveries'] = counter['n']
        res['datagrams'] = len(sim.net.log)
    return res


def expected_final(sc):
    reg, closed = set(), set()
    for (t, kind, arg) in sc['ops']:
        if kind in ('register', 'update'):
            reg.add(arg)
        elif kind == 'unregister':
            reg.discard(arg)
        elif kind == 'close':
            closed.add(arg)
    return {i for i in reg if sc['svcs'][i]['host'] not in closed}


def oracle(sc, res, lossless=True):
    if res['escaped']:
        return f"exception in the event loop: {res['escaped'][0][:300]}"
    if res['errors']:
        return f"API call failed: {res['errors'][0]}"
    final = expected_final(sc)
    last_change = max(op[0] for op in sc['ops'])
    for bi, b in enumerate(sc['browsers']):
        evs = res['events'].get(bi, [])
        view = {}
        for (t, kind, ty, name) in evs:
            # "reporting an instance" = Added and not Removed since; an Updated for an instance that was never Added does not count
            if kind == 'add':
                view[name] = True
            elif kind == 'remove':
                view[name] = False
        # "within a bounded settling time after the last change ... reporting exactly the instances currently registered": an instance whose
        # last change (register / update) lies more than the settling time back and which is still registered must not be reported Removed -
        # not even for a while (three announcements, three goodbyes and three refresh attempts make every single loss harmless)
        for (t, kind, ty, name) in evs:
            if kind != 'remove':
                continue
            idx = [i for i, sv in enumerate(sc['svcs']) if sv['name'] == name]
            if not idx:
                continue
            touched = [(ot, ok) for (ot, ok, oa) in sc['ops'] if ot <= t and ((ok in ('register', 'update', 'unregister') and oa == idx[0])
                                                                                or (ok == 'close' and oa == sc['svcs'][idx[0]]['host']))]
            if touched and touched[-1][1] in ('register', 'update') and t > touched[-1][0] + SETTLE:
                return (f"browser {bi} on host {b['host']} reported {name} Removed at +{t} ms although it has been registered without change "
                        f"since +{touched[-1][0]} ms")
        seen = {n for n, on in view.items() if on}
        want = {sc['svcs'][i]['name'] for i in final if sc['svcs'][i]['type'] in b['types']}
        if seen != want:
            missing, extra = sorted(want - seen), sorted(seen - want)
            return (f"browser {bi} on host {b['host']} (types {b['types']}) ends with {sorted(seen)}; registered on the link: {sorted(want)}"
                    f"{' missing ' + str(missing) if missing else ''}{' stale ' + str(extra) if extra else ''} "
                    f"(last change at +{last_change} ms, observed until +{sc['end']} ms)")
    # lookups started from Added callbacks resolve what was advertised (judged only when the service kept one version during the lookup)
    for lk in res['lookups']:
        vs = res['versions'].get(lk['name'], [])
        cur = [v for (t, v) in vs if t <= lk['start']]
        changed = [t for (t, v) in vs if lk['start'] - 1000 < t <= lk['end'] + 200]
        if not cur or cur[-1] is None or changed:
            continue
        s = cur[-1]
        if not lk['ok']:
            return f"lookup of {lk['name']} from the Added callback at +{lk['start']} failed"
        got = (lk['server'], lk['port'], lk['text'])
        want = (s['server'], s['port'], s['text'])
        if got != want:
            return f"lookup of {lk['name']} at +{lk['start']} resolved {got}, advertised {want}"
        # a lookup returns as soon as it holds one address of the host (C18: "all of them" only when loaded from the cache; an address
        # record that precedes the SRV record in the same datagram is not picked up by a lookup that does not know the host yet):
        # at least one address, and every address it reports is advertised
        adv = sorted(s['v4']) + sorted(s['v6'])
        have = lk['v4'] + lk['v6']
        if not have or any(a not in adv for a in have):
            return f"lookup of {lk['name']} at +{lk['start']} resolved addresses {have}, advertised {adv}"
    return None


def scenario_tags(sc):
    """a withdrawal (unregister, or close of the host) issued less than 1 s after the previous register / update / unregister of the same
    service, i.e. while that operation's announcements or goodbyes are still in flight (known finding C07-withdrawal-during-broadcast)"""
    tags = set()
    last = {}
    for (t, kind, arg) in sc['ops']:
        if kind in ('register', 'update'):
            last[arg] = t
        elif kind == 'unregister':
            if t - last.get(arg, -10 ** 9) < 1000:
                tags.add('withdrawal_during_broadcast')
            last[arg] = t
        elif kind == 'close' and any(t - lt < 1000 for i, lt in last.items() if sc['svcs'][i]['host'] == arg):
            tags.add('withdrawal_during_broadcast')
    return tags


def jsonable(x):
    from props.c05 import jsonable as j
    return j(x)


def explore(ctx, sc, budget):
    """run without loss, then with every (or a sample of) single lost delivery; -> (runs, first failure or None)"""
    base = run_scenario(sc, None)
    why = oracle(sc, base)
    runs = 1
    if why:
        return runs, dict(scenario=jsonable(sc), drop_index=None, why=why, tags=scenario_tags(sc))
    # further delivery schedules of the same scenario (other delays, duplicates and orders on the link), loss-free
    for sd in sc.get('more_seeds', ()):
        sc2 = dict(sc, seed=sd)
        r2 = run_scenario(sc2, None)
        runs += 1
        why = oracle(sc2, r2)
        if why:
            return runs, dict(scenario=jsonable(sc2), drop_index=None, why=why, tags=scenario_tags(sc2))
    n = base['deliveries']
    if sc['drop'] is None or n == 0:
        return runs, None
    if n <= budget:
        ks = list(range(n))
    else:
        # half of the budget goes to the deliveries of the loneliest datagrams (a refresh query or its answer, hundreds of seconds away
        # from any other traffic, has no redundancy next to it), the rest is drawn uniformly
        times = sorted({(t, seq) for (_, t, seq) in base['delivery_log']})
        ts = [t for t, _ in times]

        def lonely(t):
            import bisect
            i = bisect.bisect_left(ts, t)
            near = [abs(ts[j] - t) for j in (i - 1, i + 1) if 0 <= j < len(ts) and ts[j] != t] or [10 ** 9]
            return min(near)
        ranked = sorted(base['delivery_log'], key=lambda d: -lonely(d[1]))
        ks = [d[0] for d in ranked[:budget // 2]]
        rest = [k for k in range(n) if k not in ks]
        ks = sorted(ks + ctx.rng.sample(rest, min(len(rest), budget - len(ks))))
    for k in ks:
        r = run_scenario(sc, k)
        runs += 1
        why = oracle(sc, r, lossless=False)
        if why:
            return runs, dict(scenario=jsonable(sc), drop_index=k, why=why, tags=scenario_tags(sc))
    return runs, None


def run(ctx):
    ok = ctx.build(TARGETS)
    if ok:
        ok = ctx.assumptions()
    ctx.count_obligations('Props/C07.v')
    rng = ctx.rng
    n, budget = (120, 14) if ctx.tier == 'quick' else (150, 400)
    total = 0
    fails = []
    # corpus first: the recorded finding (a withdrawal 50 ms after an update, announcements still in flight)
    s0 = dict(type=TYPES[0], name='i0.' + TYPES[0], server='host0.local.', port=1000, weight=0, priority=0, text=b'', host_ttl=120, other_ttl=4500,
              v4=[bytes([10, 0, 0, 1])], v6=[], host=0)
    corpus = [dict(nh=2, svcs=[s0], browsers=[dict(host=1, types=[TYPES[0]])],
                   ops=[(1000, 'register', 0), (5000, 'browse', 0), (10000, 'update', 0), (10050, 'unregister', 0)], end=40000, seed=1, dup=0.0,
                   drop=None, lookups=True)]
    # the refresh path: two instances of one type announced 1500 s apart, a browser present from the start, observed past the first
    # pointer's TTL - every single delivery is dropped in turn (the 75 % refresh query and its answer stand alone in time)
    # (of two types: the probes of a second instance of the same type are answered by the first and would refresh its pointer everywhere)
    s1 = dict(s0, type=TYPES[1], name='i1.' + TYPES[1], server='host2.local.', port=1001, v4=[bytes([10, 0, 0, 3])], host=2)
    corpus.append(dict(nh=3, svcs=[s0, s1], browsers=[dict(host=1, types=[TYPES[0], TYPES[1]])],
                       ops=[(1000, 'browse', 0), (2000, 'register', 0), (1502000, 'register', 1)], end=6200000, seed=2, dup=0.0, drop='all', lookups=True))
    # an answer still in flight when the service is withdrawn: a browser starts 30-130 ms before the unregister, so the answer to its first
    # query leaves just before the goodbyes and may arrive (up to 100 ms late) after the first of them - the second and third goodbye,
    # 125 and 250 ms later, must still withdraw it; forty delivery schedules
    # (the browser starts 5000 s after the announcements, when the pointer has expired from its host's cache: its first query carries no
    # known answer and is answered by multicast)
    B0 = 5000000
    for gap in (30, 80, 130):
        corpus.append(dict(nh=2, svcs=[s0], browsers=[dict(host=1, types=[TYPES[0]])],
                           ops=[(1000, 'register', 0), (B0, 'browse', 0), (B0 + gap, 'unregister', 0)], end=B0 + 60000, seed=100 + gap, dup=0.1,
                           drop=None, lookups=False, fq=20, more_seeds=list(range(200 + gap, 208 + gap))))
        corpus.append(dict(nh=2, svcs=[s0], browsers=[dict(host=1, types=[TYPES[0]])],
                           ops=[(1000, 'register', 0), (B0, 'browse', 0), (B0 + gap, 'unregister', 0)], end=B0 + 60000, seed=300 + gap, dup=0.0,
                           drop=None, lookups=False, adversary='late-advertisements', fq=20))
    # churn, then a long quiet time: a service comes, goes and comes back within a few seconds while a browser is watching, and nothing
    # else happens for longer than the pointer's lifetime - the browser alone must keep the instance alive through its refresh queries
    for (t_un, t_re) in ((3000, 5000), (2500, 9000)):
        corpus.append(dict(nh=2, svcs=[s0], browsers=[dict(host=1, types=[TYPES[0]])],
                           ops=[(500, 'browse', 0), (1000, 'register', 0), (t_un, 'unregister', 0), (t_re, 'register', 0)], end=t_re + 5200000,
                           seed=400 + t_un, dup=0.0, drop=None, lookups=True))
    # a browser created while the pointer of a registered instance has expired in its host's cache but has not been reaped yet (the cleanup
    # runs every 10 s): repaired defect C07-expired-unpurged-browser (repro/c07_expired_unpurged_browser.py)
    for tb in (4502000, 4505000, 4509000):
        corpus.append(dict(nh=2, svcs=[s0], browsers=[dict(host=1, types=[TYPES[0]])], ops=[(1000, 'register', 0), (tb, 'browse', 0)],
                           end=tb + 60000, seed=7, dup=0.0, drop=None, lookups=True))
    # the only service of an instance is withdrawn and then published again with update_service() (no probing); a browser that starts after
    # the announcements depends on its queries being answered
    corpus.append(dict(nh=2, svcs=[s0], browsers=[dict(host=1, types=[TYPES[0]])],
                       ops=[(1000, 'register', 0), (5000, 'unregister', 0), (9000, 'update', 0), (5000000, 'browse', 0)], end=5060000, seed=9, dup=0.0,
                       drop=None, lookups=True))
    # the same ServiceInfo object registered, unregistered, changed in place (port) and registered again; a browser that joins later
    corpus.append(dict(nh=3, svcs=[s0], browsers=[dict(host=1, types=[TYPES[0]]), dict(host=2, types=[TYPES[0]])],
                       ops=[(500, 'browse', 0), (1000, 'register', 0), (8000, 'unregister', 0), (12000, 'register', 0), (40000, 'browse', 1)],
                       end=70000, seed=11, dup=0.0, drop=None, lookups=True, reuse=True))
    for k in range(n + len(corpus)):
        sc = corpus[k] if k < len(corpus) else gen_scenario(rng)
        runs, fail = explore(ctx, sc, 10 ** 6 if sc['drop'] == 'all' else budget)
        total += runs
        ctx.count(repr(sc), nontrivial=True)
        ctx.hist(f"hosts:{sc['nh']}")
        ctx.hist(f"services:{len(sc['svcs'])}")
        ctx.hist(f"browsers:{len(sc['browsers'])}")
        ctx.hist('long-horizon' if sc['end'] > 600000 else 'short-horizon')
        for op in sc['ops']:
            ctx.hist('op:' + op[1])
        if fail:
            fails.append(fail)
    ctx.cov['runs_including_single_loss_variants'] = total
    ctx.cov['rule'] = ("2-5 real instances on one simulated link with multicast loopback; 1-6 services of 1-3 types, 1-3 browsers (each 1-3 types) started "
                       "before, between and after registrations; register / update / unregister / close at gaps from 0 ms to 4000 s; every delivery delayed "
                       "0..100 ms (hence reordered), duplicated with probability 0/0.1/0.3; each scenario is run loss-free and then again once per chosen "
                       "single lost delivery (quick: 12 sampled, thorough: all up to 400); final check 25 s to 5000 s after the last change; lookups "
                       "from every Added callback; distinct = distinct scenarios")
    for f in fails[:3]:
        ctx.violation({'kind': 'oracle', **{k: v for k, v in f.items() if k != 'tags'}}, tags=f.get('tags', ()))
    if not ok and not ctx.violations:
        ctx.violation({'kind': 'broken-obligation', 'broken': ctx.build_msg}, no_input=True)
    return ctx.finish()


def replay(ctx, path):
    from props.c05 import unjson
    r = json.load(open(path))
    if 'scenario' not in r:
        return run(ctx)
    sc = unjson(r['scenario'])
    sc['ops'] = [tuple(o) for o in sc['ops']]
    res = run_scenario(sc, r.get('drop_index'))
    why = oracle(sc, res, lossless=r.get('drop_index') is None)
    print("replay:", f"still fails: {why}" if why else "passes")
    return 1 if why else 0
