"""C13 - queries carry known answers and are not needlessly repeated.
Model: coq/Model/Query.v (QuestionHistory, generate_service_query + bucketing, the lookup's request query, the responder's history update).
Ties: (1) the real functions against the model on generated caches / histories; (2) wire-level oracle on the full stack."""
import json

from lib.fakemsg import FakeIncoming
from lib import cachesim, common
from lib.cachesim import rec, coq_rec
from lib.common import cz, ctext, cbool, clist, copt
from lib.simloop import Sim
from props import c03

TARGETS = ['Props/C13.vo', 'Corr/C13.vo']
T1, T2 = '_t._tcp.local.', '_longer-type-name._udp.local.'


def vq(q):
    return [q.name, q.type, q.class_, bool(q.unique)]


def vhist(history):
    return c03.vset([[vq(q), int(t), c03.vset([c03.vrec_ident(r) for r in known])] for q, (t, known) in history._history.items()])


def gen_case(rng):
    now = 1_000_000
    cache = []
    n_ptr = rng.choice([0, 1, 3, 8, 40, 120])
    for i in range(n_ptr):
        ttl = rng.choice([4500, 4500, 1125, 120, 9000])
        eff = max(ttl, 1125)
        age = rng.choice([0, 1000, eff * 500 - 1, eff * 500, eff * 500 + 1, eff * 700, eff * 999])
        typ = rng.choice([T1, T1, T2])
        r = rec('KPointer', typ, 12, 1, alias=f'inst-{i:03d}.{typ}', ttl=ttl)
        if rng.random() < 0.2:
            # a history: first heard long ago in a datagram that lists the record twice, refreshed by a later datagram - what counts for the
            # known-answer list (more than half of the TTL left, remaining TTL) is the refreshed lifetime
            older = age + rng.choice([1000, eff * 300, eff * 600])
            if older < eff * 1000:
                cache.append((now - older, [r, dict(r)]))
        cache.append((now - age, [r]))
    # SRV / TXT / A for the lookup
    for r, ttl in ((rec('KService', 'inst-000.' + T1, 33, 0x8001, port=80, server='h.local.'), 120),
                   (rec('KText', 'inst-000.' + T1, 16, 0x8001, text=b'\x01a'), 4500),
                   (rec('KAddress', 'h.local.', 1, 0x8001, address=b'\x0a\x00\x00\x01'), 120),
                   (rec('KAddress', 'h.local.', 28, 0x8001, address=bytes(16)), 120)):
        if rng.random() < 0.5:
            age = rng.choice([0, ttl * 500 - 1, ttl * 500, ttl * 500 + 1, ttl * 999])
            cache.append((now - age, [dict(r, ttl=ttl)]))
    cache.sort(key=lambda d: d[0])
    # history preloaded with entries asked `gap` ms ago with a subset / superset of what is known now
    hist = []
    if rng.random() < 0.7:
        for typ in rng.sample([T1, T2], rng.randint(1, 2)):
            gap = rng.choice([0, 1, 998, 999, 1000, 1001, 5000])
            known_then = []
            for t, recs in cache:
                for r in recs:
                    if r['kind'] == 'KPointer' and r['name'] == typ and rng.random() < 0.8 \
                            and all(k['alias'] != r['alias'] for k in known_then):      # a known-answer SET: one entry per identity
                        known_then.append(r)
            if rng.random() < 0.3:
                known_then.append(rec('KPointer', typ, 12, 1, alias='gone.' + typ, ttl=4500))
            # (the question may have been heard in another spelling: names compare case-insensitively)
            heard = typ.upper().replace('.LOCAL.', '.local.') if rng.random() < 0.25 else typ
            hist.append((rec('KQuestion', heard, 12, 1), now - gap, known_then))
        if rng.random() < 0.4:
            hist.append((rec('KQuestion', rng.choice(['h.local.', 'h.local.', 'H.Local.']), 1, 1), now - rng.choice([0, 999, 1000]), []))
    lookup = None
    if rng.random() < 0.35:
        lookup = ('inst-000.' + T1, 'h.local.', rng.random() < 0.5)
    return dict(cache=cache, hist=hist, now=now, types=rng.choice([[T1], [T1, T2], [T2]]), multicast=rng.random() < 0.85,
                qtype=rng.choice([None, None, True, False]), lookup=lookup)


def observe(case):
    import zeroconf._services.browser as zb
    from zeroconf import DNSQuestionType, ServiceInfo
    from zeroconf._cache import DNSCache
    from zeroconf._handlers.record_manager import RecordManager
    from zeroconf._history import QuestionHistory

    class ZC:
        def async_notify_all(self):
            pass
    zc = ZC()
    zc.cache = DNSCache()
    zc.question_history = QuestionHistory()
    rm = RecordManager(zc)

    class Msg:
        pass
    for t, recs in case['cache']:
        m = FakeIncoming(answers=[cachesim.mk(dict(r, created=t)) for r in recs], now=t, flags=0x8400)
        rm.async_updates_from_response(m)
    for q, t, known in case['hist']:
        zc.question_history.add_question_at_time(cachesim.mk(q), t, {cachesim.mk(dict(r, created=t)) for r in known})

    hist_before = vhist(zc.question_history)
    outs_err = case.setdefault('_oracle_errors', [])
    del outs_err[:]

    def vout(o):
        return [c03.vset([vq(q) for q in o.questions]),
                c03.vset([[c03.vrec_ident(r), int(r.created)] for r, _ in o.answers]), int(o.answers[0][1]) if o.answers else case['now']]
    if case['lookup']:
        name, server, qu = case['lookup']
        info = ServiceInfo(T1, name, server=server)
        out = info._generate_request_query(zc, case['now'], DNSQuestionType.QU if qu else DNSQuestionType.QM)
        after = vhist(zc.question_history)
        if qu and valparse_canon(after) != valparse_canon(hist_before):
            outs_err.append("a QU lookup question changed the question history")
        return [[vout(out)], after], [out]
    qt = None if case['qtype'] is None else (DNSQuestionType.QU if case['qtype'] else DNSQuestionType.QM)
    # set iteration order is not part of the behaviour: hand the types over in list order by using a dict-backed ordered "set"
    outs = zb.generate_service_query(zc, case['now'], dict.fromkeys(case['types']), case['multicast'], qt)
    after = vhist(zc.question_history)
    qu_now = (not case['multicast']) if case['qtype'] is None else case['qtype']
    if qu_now and valparse_canon(after) != valparse_canon(hist_before):
        outs_err.append("a QU browser question was recorded in the question history (a later QM question would be suppressed by it)")
    return [c03.vset([vout(o) for o in outs]), after], outs


def valparse_canon(v):
    from lib import valparse
    return valparse.canon(valparse.to_plain(v))


def oracle(case, obs, outs):
    """the property on the implementation's own output"""
    if case.get('_oracle_errors'):
        return case['_oracle_errors'][0]
    now = case['now']
    cached = {}
    for t, recs in case['cache']:
        for r in recs:
            ttl = max(r['ttl'], 1125) if (r['kind'] == 'KPointer' and r['ttl']) else r['ttl']
            cached[c03.py_ident(r)] = (r, t, ttl)
    prev = {(q['name'].lower(), q['type']): (t, [c03.py_ident(k) for k in known]) for q, t, known in case['hist']}
    asked = {}
    for o in outs:
        for q in o.questions:
            asked[(q.name.lower(), q.type)] = (q, o)
    if case['lookup']:
        name, server, qu = case['lookup']
        wanted = [(name, 33, True), (name, 16, True), (server, 1, False), (server, 28, False)]
    else:
        qu = (not case['multicast']) if case['qtype'] is None else case['qtype']
        wanted = [(t, 12, False) for t in case['types']]
    for (name, ty, skip_if_known) in wanted:
        fresh = {i for i, (r, t, ttl) in cached.items() if r['name'].lower() == name.lower() and r['type'] == ty and (r['cls'] & 0x7FFF) == 1
                 and t + 500 * ttl > now}
        key = (name.lower(), ty)
        if skip_if_known and fresh:
            if key in asked:
                return f"{name}/{ty} asked although a fresh answer is cached"
            continue
        suppressed = (not qu) and key in prev and now - prev[key][0] <= 999 and set(prev[key][1]) <= fresh
        if suppressed != (key not in asked):
            return (f"question {name}/{ty} {'omitted' if key not in asked else 'sent'}; history entry {prev.get(key)}; "
                    f"QU={qu}; expected {'omitted' if suppressed else 'sent'}")
        if key in asked:
            q, o = asked[key]
            if bool(q.unique) != qu:
                return f"question {name}/{ty}: QU bit {q.unique}, expected {qu}"
            got = {c03.py_ident_obj(r) for r, _ in o.answers if r.name.lower() == name.lower() and r.type == ty}
            if got != fresh:
                return f"known answers of {name}/{ty}: {len(got)} listed, {len(fresh)} cached records have more than half their TTL left"
            for r, t in o.answers:
                if t != now:
                    return "known answer not stamped with the query time (remaining TTL would be wrong)"
    return None


def coq_case(case):
    dgs = clist(f"({cz(t)}, {clist(coq_rec(dict(r, created=t)) for r in recs)})" for t, recs in case['cache'])
    hs = clist(f"({coq_rec(q)}, {cz(t)}, {clist(coq_rec(dict(r, created=t)) for r in known)})" for q, t, known in case['hist'])
    lk = "None" if not case['lookup'] else f"(Some ({ctext(case['lookup'][0])}, {ctext(case['lookup'][1])}, {cbool(case['lookup'][2])}))"
    return ("{| k_cache := %s; k_hist := %s; k_now := %s; k_types := %s; k_multicast := %s; k_qtype := %s; k_lookup := %s |}" % (
        dgs, hs, cz(case['now']), clist(ctext(t) for t in case['types']), cbool(case['multicast']),
        copt(case['qtype'], cbool), lk))


# ---- responder-side history ----

def gen_resp_case(rng):
    case = c03.gen_case(rng)
    case['ops'] = [(op, a) for op, a in case['ops'] if op in ('add', 'update-new', 'remove')]
    hs = []
    if rng.random() < 0.5:
        hs.append((rec('KQuestion', c03.TYPES[0], 12, 1), 99000, []))
    case['hist'] = hs
    return case


def observe_resp(case):
    from zeroconf._cache import DNSCache
    from zeroconf._handlers.query_handler import QueryHandler
    from zeroconf._history import QuestionHistory
    from zeroconf._services.registry import ServiceRegistry

    class ZC:
        pass
    zc = ZC()
    zc.registry, zc.cache, zc.question_history = ServiceRegistry(), DNSCache(), QuestionHistory()
    zc.out_queue = zc.out_delay_queue = None
    infos = {}
    for op, arg in case['ops']:
        try:
            if op in ('add', 'update-new'):
                info = c03.mk_info(arg)
                (zc.registry.async_add if op == 'add' else zc.registry.async_update)(info)
                infos[info.key] = info
            else:
                if arg.lower() in infos:
                    zc.registry.async_remove(infos.pop(arg.lower()))
        except Exception:  # noqa: BLE001
            pass
    for q, t, known in case['hist']:
        zc.question_history.add_question_at_time(cachesim.mk(q), t, set())

    class Msg:
        pass
    msgs = []
    for md in case['msgs']:
        m = FakeIncoming(questions=[cachesim.mk(q) for q in md['questions']],
                         answers=[cachesim.mk(dict(r, created=md['now'])) for r in md['answers']],
                         now=md['now'], is_probe=md['is_probe'])
        msgs.append(m)
    QueryHandler(zc).async_response(msgs, case['ucast_source'])
    # oracle: QU questions are never recorded
    for q in zc.question_history._history:
        if q.unique and not any(cachesim.mk(h[0]) == q for h in case['hist']):
            return vhist(zc.question_history), "a QU question was recorded in the question history"
    # ... and a QM pointer question for a type we are responsible for is remembered, at the time of the query that carried it, whether or
    # not anything is left to answer after known-answer suppression (other responders' and our own askers' suppression relies on it)
    types = {info.type.lower() for info in infos.values()}      # what the operations that were applied left registered
    for md in case['msgs']:
        for q in md['questions']:
            if q['type'] == 12 and not (q['cls'] & 0x8000) and q['name'].lower() in types:
                hit = [t for hq, (t, _) in zc.question_history._history.items() if hq.name.lower() == q['name'].lower() and hq.type == 12]
                if not hit or max(hit) < md['now']:
                    return vhist(zc.question_history), (f"the QM question {q['name']} PTR heard at {md['now']} for a registered type is not in the "
                                                        f"question history afterwards (entries at {hit})")
    return vhist(zc.question_history), None


def coq_resp_case(case):
    ops = []
    for op, arg in case['ops']:
        ops.append(f"RAdd {c03.coq_svc(arg)}" if op == 'add' else (f"RUpdate {c03.coq_svc(arg)}" if op == 'update-new' else f"RRemove {ctext(arg)}"))
    hs = clist(f"({coq_rec(q)}, {cz(t)}, [])" for q, t, known in case['hist'])
    msgs = clist("{| qm_questions := %s; qm_answers := %s; qm_is_probe := %s; qm_now := %s |}" % (
        clist(coq_rec(q) for q in m['questions']), clist(coq_rec(dict(r, created=m['now'])) for r in m['answers']),
        cbool(m['is_probe']), cz(m['now'])) for m in case['msgs'])
    return f"({clist(ops)}, {hs}, {msgs})"


# ---- full stack: TC splitting and two askers in one instance ----

def run_wire_scenario(n_ptr, gap, qtype_qu):
    """two browsers for the same type in one instance started `gap` ms apart; cache preloaded with n_ptr pointers"""
    from zeroconf import DNSQuestionType
    from zeroconf.asyncio import AsyncServiceBrowser
    from zeroconf._protocol.incoming import DNSIncoming
    from props.c04 import build_response
    res = {}
    with Sim() as sim:
        class L:
            def add_service(self, *a):
                pass
            remove_service = update_service = add_service

        async def main():
            b = await sim.start_host('B', '10.0.0.2')
            for k in range(0, n_ptr, 20):
                recs = [rec('KPointer', T1, 12, 1, alias=f'instance-number-{i:04d}.{T1}', ttl=4500) for i in range(k, min(n_ptr, k + 20))]
                sim.net.inject(b, build_response(recs), ('10.0.0.9', 5353))
            t0 = sim.now
            qt = DNSQuestionType.QU if qtype_qu else DNSQuestionType.QM
            sim.randoms['first_query_delay'] = [20, 57]
            b1 = AsyncServiceBrowser(b.zc, [T1], listener=L(), question_type=qt)
            await sim.sleep(gap)
            b2 = AsyncServiceBrowser(b.zc, [T1], listener=L(), question_type=qt)
            await sim.sleep(150)
            res['sends'] = [(ms - t0, DNSIncoming(data)) for ms, h, dest, data, idx in sim.net.log]
            await b1.async_cancel()
            await b2.async_cancel()
            await b.azc.async_close()
        sim.run(main())
    return res


def oracle_wire(n_ptr, gap, qtype_qu, res):
    sends = res['sends']
    # group datagrams sent at the same instant: one query possibly split over several packets
    by_t = {}
    for t, m in sends:
        by_t.setdefault(t, []).append(m)
    times = sorted(by_t)
    for t in times:
        pk = by_t[t]
        known = [r for m in pk for r in m.answers()]
        if len({r.alias for r in known}) != n_ptr and len(pk) >= 1 and any(m.questions for m in pk):
            return f"query at +{t}: {len(known)} known answers listed, {n_ptr} fresh pointers cached"
        for i, m in enumerate(pk):
            if (m.flags & 0x0200 != 0) != (i < len(pk) - 1):
                return f"query at +{t}: TC bit wrong on packet {i + 1} of {len(pk)}"
        for r in known:
            if r.ttl != 4500 - (t // 1000) - (0 if t % 1000 == 0 else 0) and abs(r.ttl - (4500 - t / 1000.0)) >= 1:
                return f"known answer with ttl {r.ttl} at +{t} (remaining TTL expected)"
    # browser 1 asks at +20 (and again at +1020), browser 2 at +gap+57: that one is omitted exactly when it is a QM question asked
    # within 999 ms of the same question with the same known answers
    t2 = gap + 57
    last_b1 = 1020 if t2 >= 1020 else 20
    suppressed = (not qtype_qu) and (t2 - last_b1) <= 999
    if (t2 in by_t) == suppressed:
        return f"second browser's first query (at +{t2}, {t2 - last_b1} ms after the same question, QU={qtype_qu}) was {'sent' if t2 in by_t else 'omitted'}"
    return None


def jsonable(x):
    from props.c05 import jsonable as j
    if isinstance(x, dict):
        x = {k: v for k, v in x.items() if not k.startswith('_')}
    return j(x)


def run(ctx):
    ok = ctx.build(TARGETS)
    if ok:
        ok = ctx.assumptions()
    ctx.count_obligations('Props/C13.v')
    rng = ctx.rng
    quick = ctx.tier == 'quick'
    coq_cases, fails = [], []
    for _ in range(700 if quick else 4000):
        case = gen_case(rng)
        obs, outs = observe(case)
        why = oracle(case, obs, outs)
        if why:
            fails.append((case, why))
        coq_cases.append((coq_case(case), obs, case))
        ctx.count(('q', repr(case)), nontrivial=bool(case['cache']))
        ctx.hist('lookup' if case['lookup'] else f"browser:{len(outs)}-packets")
    resp_cases = []
    for _ in range(400 if quick else 2500):
        case = gen_resp_case(rng)
        obs, why = observe_resp(case)
        if why:
            fails.append((case, why))
        resp_cases.append((coq_resp_case(case), obs, case))
        ctx.count(('r', repr(case)), nontrivial=bool(case['services']))
    wire = [(n, g, qu) for n in (0, 3, 60, 150) for g in (0, 998, 999, 1000) for qu in (False, True)]
    if quick:
        wire = rng.sample(wire, 12)
    for n, g, qu in wire:
        res = run_wire_scenario(n, g, qu)
        why = oracle_wire(n, g, qu, res)
        if why:
            fails.append(({'n_ptr': n, 'gap': g, 'qu': qu}, why))
        ctx.count(('w', n, g, qu), nontrivial=True)
        ctx.hist(f"wire:packets={max(len(v) for v in [[m for t2, m in res['sends'] if t2 == t] for t, _ in res['sends']] or [[1]])}")
    # the pacing of a lookup's queries (first QU unless forced, later QM, one second apart after the second): the real async_request loop
    from props import c18
    from props.c05 import unjson
    import os
    corpus_sc = unjson(json.load(open(os.path.join(common.VERIF, 'corpus', 'c13_lookup_third_query.json'))))
    for k in ('pre', 'during'):
        corpus_sc[k] = [tuple(d) for d in corpus_sc[k]]
    for i in range(1 + (80 if quick else 600)):
        if i == 0:
            sc = corpus_sc                # the recorded finding C13-lookup-third-query-early
        else:
            sc = c18.gen_scenario(rng)
            sc['pre'] = [p for p in sc['pre'] if all(r['kind'] != 'KAddress' for r in p[1])]     # keep the lookup busy: no cached addresses
            sc['timeout'] = rng.choice([1000, 3000, 10000])
        res = c18.run_scenario(sc)
        why, tags = c18.oracle_questions(sc, res, spacing=True) if not res['escaped'] else (f"exception in the event loop: {res['escaped'][0]}", set())
        if why:
            fails.append(({'lookup_scenario': sc}, why, tags))
        ctx.count(('l', repr(sc)), nontrivial=True)
        ctx.hist(f"lookup-queries:{min(len(res['sends']), 6)}")
    ctx.sample(jsonable({k: v for k, v in coq_cases[0][2].items()}))
    ctx.cov['rule'] = ("(1) caches of 0-120 pointers (+ SRV/TXT/A/AAAA) aged around half of the TTL, question histories 0/1/998/999/1000/1001 ms old with subsets or supersets of the "
                       "known answers, forced or free question type, browser queries (1-2 types) and lookup queries: questions, QU bits, known-answer sets with their stamps, "
                       "bucketing and the history afterwards compared with the model; responder-side history after async_response; (2) on the wire: two browsers of one instance "
                       "started 0/998/999/1000 ms apart over 0-150 cached pointers: number of queries, known answers, TC flags. distinct = distinct cases")
    for f in fails[:6]:
        case, why, tags = f if len(f) == 3 else (f[0], f[1], ())
        ctx.violation({'kind': 'oracle', 'why': why, 'case': jsonable(case), 'broken': None if ok else ctx.build_msg}, tags=tags)
    if not ok:
        if not ctx.violations:
            ctx.violation({'kind': 'broken-obligation', 'broken': ctx.build_msg}, no_input=True)
        return ctx.finish()
    imports = 'Model.Base Model.PyRec Model.Respond Model.Query Model.ValSet Corr.C03 Corr.C13'
    mism = ctx.run_cases(imports, 'c13_in', 'c13_run', [(c, o) for c, o, _ in coq_cases], shard=max(10, len(coq_cases) // (2 * common.NPROC) + 1),
                         mismatch_fn='mismatches_u')
    mism2 = ctx.run_cases(imports, 'list rop * list (pyrec * Z * list pyrec) * list qmsg', 'c13_resp_run', [(c, o) for c, o, _ in resp_cases],
                          shard=max(10, len(resp_cases) // common.NPROC + 1), mismatch_fn='mismatches_u', tag='resp')
    ctx.cov['traces_validated_against_impl'] = len(coq_cases) + len(resp_cases) - len(mism) - len(mism2)
    for (idx, model_out), cases, what in [(x, coq_cases, 'Model.Query (generate_service_query / request query)') for x in mism[:2]] + \
                                         [(x, resp_cases, 'Model.Query.respond_history_update') for x in mism2[:2]]:
        ctx.violation({'kind': 'correspondence', 'what': what + ' disagrees with the implementation', 'case': jsonable(cases[idx][2]),
                       'implementation': str(cases[idx][1])[:2000], 'model': model_out[:2000]}, no_input=True)
    return ctx.finish()


def replay(ctx, path):
    print("replay: re-running the check")
    return run(ctx)
