"""Repro (pinned tree before the fix "reap expired records before adding a listener"): a browser created while the pointer record of a registered
instance sits in the cache expired but not yet reaped by the 10 s cleanup never reports that instance: the answer to its first query refreshes
the stale cache entry, the record manager hands it to the browser as (record, old=<that entry>), and the browser treats "old is not None" as
already reported. Two real instances on the virtual-time simulator; nothing is lost, delays 0..100 ms.
    PYTHONPATH=/repo/src:/verif /venv/bin/python repro/c07_expired_unpurged_browser.py   -> prints the browse times at which the instance is missed"""
from props import c07

TY = c07.TYPES[0]
s0 = dict(type=TY, name='i0.' + TY, server='host0.local.', port=1000, weight=0, priority=0, text=b'', host_ttl=120, other_ttl=4500,
          v4=[bytes([10, 0, 0, 1])], v6=[], host=0)
bad = []
for tb in range(4500000, 4514000, 500):
    sc = dict(nh=2, svcs=[s0], browsers=[dict(host=1, types=[TY])], ops=[(1000, 'register', 0), (tb, 'browse', 0)], end=tb + 60000, seed=7, dup=0.0,
              drop=None, lookups=True)
    why = c07.oracle(sc, c07.run_scenario(sc))
    if why:
        bad.append(tb)
print('browser start times (ms after the registration at +1000) at which the registered instance is never reported:', bad)
print('FAIL' if bad else 'PASS')
raise SystemExit(1 if bad else 0)
