"""C08, second half of the queue defect (found while proving no_resurrection: Proofs/C08_withdraw.v no_resurrection_queue_hypothesis_needed).
Two services share the host h.local.: s1 advertises A + AAAA, s2 only the AAAA. A query [A h.local., PTR _t._tcp.local.] is waiting in the
1 s protection queue with the AAAA riding as an additional of the A answer. s1 is unregistered (host still in use: addresses stay), then s2
(the AAAA is withdrawn with three goodbyes). The queued answer must not carry the withdrawn AAAA with a positive TTL afterwards."""
import socket, sys
sys.path.insert(0, '/verif')
from lib.simloop import Sim


def main():
    from zeroconf import ServiceInfo, DNSOutgoing, DNSQuestion, DNSIncoming, const
    V4, V6 = socket.inet_aton('10.0.0.1'), socket.inet_pton(socket.AF_INET6, 'fe80::1')
    with Sim(loopback=True) as sim:
        async def go():
            a = await sim.start_host('A', '10.0.0.1')
            s1 = ServiceInfo('_t._tcp.local.', 's1._t._tcp.local.', 80, addresses=[V4, V6], server='h.local.')
            s2 = ServiceInfo('_t._tcp.local.', 's2._t._tcp.local.', 81, addresses=[V6], server='h.local.')
            for s in (s1, s2):
                await (await a.zc.async_register_service(s, cooperating_responders=True))
            await sim.sleep(5000)
            sim.randoms['mcast_delay'] = [120] * 10
            t0 = sim.now
            for k, src in enumerate(('10.0.0.7', '10.0.0.8')):          # the second one lands in the 1 s protection queue
                q = DNSOutgoing(const._FLAGS_QR_QUERY, id_=k)
                q.add_question(DNSQuestion('h.local.', const._TYPE_A, const._CLASS_IN))
                q.add_question(DNSQuestion('_t._tcp.local.', const._TYPE_PTR, const._CLASS_IN))
                sim.net.inject(a, q.packets()[0], (src, 5353))
                await sim.sleep(300)
            await (await a.zc.async_unregister_service(s1))
            mark = len(sim.net.log)
            await (await a.zc.async_unregister_service(s2))
            tdone = sim.now
            await sim.sleep(3000)
            bad = []
            for (ms, host, dest, data, idx) in sim.net.log[mark:]:
                for r in DNSIncoming(data).answers():
                    if r.ttl > 0 and ms >= tdone and r.type == 28:
                        bad.append((ms - t0, str(r)))
            print('goodbyes of s2 done at +%d ms; withdrawn AAAA seen afterwards with TTL > 0: %s' % (tdone - t0, bad))
            return 1 if bad else 0
        sys.exit(sim.run(go()))


main()
