"""Repro (tree before the fix 74bfdb9): a pointer learned with TTL 4500 s and refreshed 2531.25 s later with TTL 1125 s has the 75 % point of the
refreshed record exactly where the refresh of the first copy was scheduled, so the scheduler keeps that entry ("no churn") - with the OLD record's TTL
and expiry. After the refresh query at 75 % the next attempts are spaced by 10 % of 4500 s instead of 10 % of 1125 s and fall after the record has
expired: one refresh attempt instead of three, then Removed.
    PYTHONPATH=/repo/src:/verif /venv/bin/python repro/c10_no_churn_ttl.py"""
from lib.cachesim import rec
from props import c04

T1 = c04.T1
sc = dict(types=[T1], delay=10000, qnone=True, violates_hyp=False, horizon=4000000,
          events=[('browse', 0, 20), ('resp', 20000, [rec('KPointer', T1, 12, 1, alias='x.' + T1, ttl=4500)]),
                  ('resp', 20000 + 2531250, [rec('KPointer', T1, 12, 1, alias='x.' + T1, ttl=1125)])])
out = c04.run_scenario(sc)
t0 = out['t0']
print('queries at (ms after start):', [s[0] - t0 for s in out['sends']])
print('callbacks:', [(c[0] - t0, c[1], c[3]) for c in out['callbacks']])
why, _ = c04.oracle_c10(sc, out)
print('FAIL: ' + why if why else 'PASS')
raise SystemExit(1 if why else 0)
