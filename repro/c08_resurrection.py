import sys
sys.path.insert(0,'/verif')
from lib.simloop import Sim
import socket
def main():
    from zeroconf import ServiceInfo, DNSOutgoing, DNSQuestion, DNSIncoming, const
    with Sim(loopback=True) as sim:
        async def go():
            a = await sim.start_host('A', '10.0.0.1')
            info = ServiceInfo('_t._tcp.local.', 'x._t._tcp.local.', 80, addresses=[socket.inet_aton('10.0.0.1')], server='h.local.')
            await (await a.zc.async_register_service(info))
            await sim.sleep(5000)
            q = DNSOutgoing(const._FLAGS_QR_QUERY)
            q.add_question(DNSQuestion('_t._tcp.local.', const._TYPE_PTR, const._CLASS_IN))
            sim.randoms['mcast_delay'] = [120]
            t0 = sim.now
            sim.net.inject(a, q.packets()[0], ('10.0.0.7', 5353))
            await sim.sleep(300)
            q2 = DNSOutgoing(const._FLAGS_QR_QUERY)
            q2.add_question(DNSQuestion('_t._tcp.local.', const._TYPE_PTR, const._CLASS_IN))
            q2.add_question(DNSQuestion('zz.local.', const._TYPE_A, const._CLASS_IN))
            sim.net.inject(a, q2.packets()[0], ('10.0.0.8', 5353))
            await sim.sleep(10)
            mark = len(sim.net.log)
            fut = await a.zc.async_unregister_service(info)
            await fut
            tdone = sim.now
            await sim.sleep(3000)
            bad = []
            for (ms, host, dest, data, idx) in sim.net.log[mark:]:
                msg = DNSIncoming(data)
                for r in msg.answers():
                    if r.ttl > 0 and ms >= tdone:
                        bad.append((ms - t0, r))
            print('goodbyes done at', tdone - t0, 'resurrections:', bad)
        sim.run(go())
main()
