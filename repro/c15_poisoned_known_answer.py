"""C15 finding: a response carrying a PTR record for a browsed type whose target name has a 63-byte label of invalid UTF-8 is cached; the
browser's next query lists it as a known answer, the encoder raises NamePartTooLongException inside the scheduler's timer callback
(QueryScheduler._process_startup_queries): the exception reaches the event loop and the scheduler is never re-armed."""
import struct, sys
sys.path.insert(0, '/verif')
from lib.simloop import Sim


def name_bytes(name):
    return b''.join(bytes([len(l)]) + l.encode() for l in name.strip('.').split('.')) + b'\x00'


def main():
    from zeroconf.asyncio import AsyncServiceBrowser
    T = '_u._udp.local.'
    with Sim() as sim:
        async def go():
            a = await sim.start_host('A', '10.0.0.1')

            class L:
                def add_service(self, *a): pass
                def remove_service(self, *a): pass
                def update_service(self, *a): pass
            b = AsyncServiceBrowser(a.zc, [T], listener=L())
            await sim.sleep(300)
            rd = bytes([63]) + b'\xff' * 63 + b'\x05local\x00'
            data = struct.pack('>HHHHHH', 0, 0x8400, 0, 1, 0, 0) + name_bytes(T) + struct.pack('>HHIH', 12, 1, 4500, len(rd)) + rd
            sim.net.inject(a, data, ('10.0.0.7', 5353))
            mark = len(sim.net.log)
            await sim.sleep(20000)
            timer = b.query_scheduler._next_run
            armed = timer is not None and not timer.cancelled()
            print('escaped into the loop:', sim.loop.escaped[:1])
            print('scheduler still armed:', armed)
            await b.async_cancel()
            return 1 if (sim.loop.escaped or not armed) else 0
        sys.exit(sim.run(go()))


main()
