"""C15 finding: a legacy-unicast query (source port != 5353) whose first question has a label with invalid UTF-8 (30 x 0xFF -> 30 x U+FFFD = 90
bytes) plus a question for a registered type: the reply echoes the questions, the encoder raises NamePartTooLongException inside datagram_received."""
import socket, struct, sys
sys.path.insert(0, '/verif')
from lib.simloop import Sim


def main():
    from zeroconf import ServiceInfo
    with Sim() as sim:
        async def go():
            a = await sim.start_host('A', '10.0.0.1')
            info = ServiceInfo('_t._tcp.local.', 'x._t._tcp.local.', 80, addresses=[socket.inet_aton('10.0.0.1')], server='h.local.')
            await (await a.zc.async_register_service(info, cooperating_responders=True))
            await sim.sleep(2000)
            bad = bytes([30]) + b'\xff' * 30 + b'\x05local\x00' + struct.pack('>HH', 1, 1)
            good = b'\x02_t\x04_tcp\x05local\x00' + struct.pack('>HH', 12, 1)
            data = struct.pack('>HHHHHH', 7, 0, 2, 0, 0, 0) + bad + good
            mark = len(sim.net.log)
            sim.net.inject(a, data, ('10.0.0.7', 40000))
            await sim.sleep(1000)
            print('escaped:', sim.loop.escaped)
            print('replies:', [(d, len(b)) for (_, _, d, b, _) in sim.net.log[mark:]])
            return 1 if sim.loop.escaped else 0
        try:
            rc = sim.run(go())
        except Exception as e:  # noqa: BLE001
            print('escaped from datagram_received:', type(e).__name__)
            rc = 1
        sys.exit(rc)


main()
